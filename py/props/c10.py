"""C10 — a journal file is deleted only when nothing in it is still needed.
Real 64 MB journal traffic (bigfill), several keyspaces flushed in different orders with one lagging; every
unlink of a *.jnl is observed through the shim; a crash right after each unlink must lose nothing."""
import os, re, shutil, random, collections
from common import run_fjv, workdir, pmap
import crash as C

LEVEL = "proof"
COQ_TARGETS = ("props/C10.vo",)
THEOREMS = ["C10_evicted_only_when_durable", "C10_oldest_first", "C10_back_to_one_partial", "C10_example", "C10_journal_complete", "C10_journal_complete_with_deletion", "C10_eviction_keeps_journal_complete"]


def build_workload(seed):
    r = random.Random(seed)
    nks = r.choice([2, 2, 3])
    names = ["alpha", "beta", "gamma"][:nks]
    L = ["open plain jcomp=none"] + ["ks h%d %s" % (i, n) for i, n in enumerate(names)] + ["arm"]
    expect = {i: {} for i in range(nks)}        # small marker keys per keyspace
    big = {i: [] for i in range(nks)}           # (tag, count) bigfills
    deleted = set()
    tagc = 0

    def marker(i):
        k = "6d%02x" % r.randrange(256)
        v = "%02x%02x" % (r.randrange(256), r.randrange(256))
        L.append("put h%d %s %s" % (i, k, v))
        expect[i][k] = v

    for i in range(nks):
        marker(i)
    rounds = r.choice([1, 1, 2])
    for rd in range(rounds):
        filler = r.randrange(nks)
        tag = "t%d" % tagc
        tagc += 1
        L.append("bigfill h%d 66 1024 %s" % (filler, tag))
        big[filler].append((tag, 66))
        for i in range(nks):
            if r.random() < 0.7:
                marker(i)
        order = list(range(nks))
        r.shuffle(order)
        lag = order[-1] if r.random() < 0.6 else None
        for i in order:
            if i == lag:
                continue
            L.append("rotate h%d" % i)
            L.append("drain")
            L.append("info")
        if lag is not None:
            marker(lag)
            L.append("info")
            L.append("rotate h%d" % lag)
            L.append("drain")
            L.append("info")
    # finally flush everything: the number of journals must return to one
    for i in range(nks):
        L.append("rotate h%d" % i)
        L.append("drain")
    L.append("info")
    L.append("exit 0")
    return "\n".join(L) + "\n", names, expect, big


def verify_prog(names, expect, big):
    L = ["open plain"] + ["ks h%d %s" % (i, n) for i, n in enumerate(names)]
    want = []
    for i in range(len(names)):
        for k, v in sorted(expect[i].items()):
            L.append("get - h%d %s" % (i, k))
            want.append("some " + v)
        for tag, cnt in big[i]:
            for j in (0, cnt // 2, cnt - 1):
                L.append("size - h%d %s" % (i, ("bf%s%04d" % (tag, j)).encode().hex()))
                want.append("some %d" % (1024 * 1024))
    return "\n".join(L) + "\n", want, len(names) + 1


def restrict(expect, big, prog, last_line):
    """expected content given that only lines <= last_line were acknowledged"""
    e2 = {i: {} for i in expect}
    b2 = {i: [] for i in big}
    for ln, l in enumerate(prog.splitlines(), 1):
        if ln > last_line:
            break
        t = l.split()
        if t[0] == "put":
            e2[int(t[1][1:])][t[2]] = t[3]
        elif t[0] == "bigfill":
            b2[int(t[1][1:])].append((t[4], int(t[2])))
    return e2, b2


def collapse(ops):
    out, i = [], 0
    while i < len(ops):
        j = i
        while j < len(ops) and ops[j] == ops[i]:
            j += 1
        out.append(ops[i] if j - i == 1 else "%s x%d" % (ops[i], j - i))
        i = j
    return out


def eviction_workload(args):
    idx, seed, tier = args
    prog, names, expect, big = build_workload(seed * 67867967 + idx)
    wd = workdir()
    out = dict(prog=prog, problems=[], unlinks=[], runs=0, journals_seen=[])
    try:
        db = C.fresh(wd)
        obs, raw, rc = run_fjv(prog, dbdir=db, env_extra=C.shim_env(db, wd), timeout=600)
        if rc == -99 or any(v == "err timeout" for v in obs.values()):
            out["incomplete"] = True          # the machine is too slow right now: nothing can be judged from a cut-off run
            out["sample"] = dict(incomplete=True)
            return out
        evs = C.read_log(wd)
        un = [e for e in evs if e["call"] in ("unlink", "unlinkat") and e["path"].endswith(".jnl")]
        out["unlinks"] = [e["path"] for e in un]
        out["journals_seen"] = [int(m.group(1)) for v in obs.values() for m in [re.search(r"journals=(\d+)", v)] if m]
        ids = [int(os.path.basename(p)[:-4]) for p in out["unlinks"]]
        if ids != sorted(ids):
            out["problems"].append(("order", "journals unlinked out of order: %s" % ids))
        if not out["journals_seen"] or out["journals_seen"][-1] != 1:
            out["problems"].append(("count", "journal_count after flushing everything: %s" % out["journals_seen"][-3:]))
        if max(out["journals_seen"] or [0]) < 2 and not out["unlinks"]:
            out["problems"].append(("norotation", "workload never reached a journal rotation: %s" % out["journals_seen"]))
        # final content after a clean-less exit
        vp, want, off = verify_prog(names, expect, big)
        o2, _, _ = run_fjv(vp, dbdir=db, timeout=300)
        got = [o2.get(off + 1 + i) for i in range(len(want))]
        out["runs"] += 1
        if got != want:
            out["problems"].append(("final", "content after the run differs: %s vs %s" % (got, want)))
        # crash immediately after (and, thorough, immediately before) every journal unlink
        points = [(e["n"] + 1, "after") for e in un] + ([(e["n"], "before") for e in un] if tier != "quick" else [])
        for n, where in points:
            db = C.fresh(wd)
            o, raw, rc = run_fjv(prog, dbdir=db, env_extra=C.shim_env(db, wd, CRASH_AT=n), timeout=600)
            if rc == -99 or any(v == "err timeout" for v in o.values()):
                out["incomplete"] = True
                continue
            last = C.acked_ops(prog, o)
            e2, b2 = restrict(expect, big, prog, last)
            vp, want, off = verify_prog(names, e2, b2)
            o2, _, _ = run_fjv(vp, dbdir=db, timeout=300)
            got = [o2.get(off + 1 + i) for i in range(len(want))]
            out["runs"] += 1
            if o2.get(1) != "ok" or got != want:
                out["problems"].append(("crash-" + where, "crash %s unlink (event %d, last acknowledged line %d): open %s; "
                                        "acknowledged content missing: got %s want %s" % (where, n, last, o2.get(1), got, want)))
                break
        out["sample"] = dict(keyspaces=len(names), unlinked=out["unlinks"], journal_counts=out["journals_seen"],
                             ops=[l for l in prog.splitlines() if l.split()[0] in ("bigfill", "rotate")][:8])
        return out
    finally:
        shutil.rmtree(wd, ignore_errors=True)


def mgr_conformance(args):
    """JournalMgr.v vs the real journal manager: a workload with real 66 MiB journal traffic (memtable limit 400 MB so that
    only explicit rotations happen) is translated step by step into model operations — write -> JWrite, rotate -> JRotate,
    each queued flush task at `drain` -> [JSeal when the active journal is past 64 000 000 bytes] JFlush JMaint, delete ->
    JDelete — and the number of journal files (Database::journal_count through `info`) and the set of unlinked files
    (shim log) must equal the model's after every step."""
    import subprocess
    from common import FJM, ENV
    idx, seed = args
    r = random.Random(seed * 15485863 + idx)
    nks = r.choice([2, 3])
    names = ["alpha", "beta", "gamma"][:nks]
    L = ["open plain jcomp=none"] + ["ks h%d %s mt=400000000" % (i, n) for i, n in enumerate(names)] + ["arm"]
    M = ["c %d" % (i + 1) for i in range(nks)]
    checks = []                       # (program line, index into the model output)
    unflushed = {i: 0 for i in range(nks)}      # writes in the active memtable
    queue = []                        # flush tasks in order
    jbytes, fills, alive = 0, 0, set(range(nks))
    for k in range(nks):               # every keyspace has unflushed data from the start (lagging keyspaces)
        L.append("put h%d 6d00 00" % k)
        M.append("w %d" % (k + 1)); unflushed[k] += 1; jbytes += 60
    filler = None
    for step in range(r.randrange(10, 18)):
        c = r.random()
        live = sorted(alive)
        k = r.choice(live)
        if step in (1, 7) and fills < 3:
            c = 0.5                     # a fill early and one in the middle
        elif filler in alive and unflushed[filler] and r.random() < 0.5:
            k, c = filler, 0.7          # flush the filler first: the others lag behind
        elif queue and r.random() < 0.6:
            c = 0.9
        if c < 0.3:
            L.append("put h%d %s %s" % (k, "6d%02x" % r.randrange(256), "%04x" % r.randrange(65536)))
            M.append("w %d" % (k + 1)); unflushed[k] += 1; jbytes += 60
        elif c < 0.4 and len(live) > 1:
            a, b = r.sample(live, 2)
            L.append("batch - h%d:p:6e01:01 h%d:p:6e02:02" % (a, b))
            M.append("w %d %d" % (a + 1, b + 1)); unflushed[a] += 1; unflushed[b] += 1; jbytes += 120
        elif c < 0.55 and fills < 3:
            L.append("bigfill h%d 66 1024 t%d" % (k, fills)); fills += 1; filler = k
            M += ["w %d" % (k + 1)] * 66; unflushed[k] += 66; jbytes += 66 * (1024 * 1024 + 40)
        elif c < 0.8:
            L.append("rotate h%d" % k)
            M.append("r %d" % (k + 1))
            if unflushed[k]:
                M.append("m")          # a successful rotate_memtable ends with JournalManager::maintenance
                queue.append(k); unflushed[k] = 0
        elif c < 0.93:
            L.append("drain")
            for q in queue:
                if jbytes > 64000000:
                    M.append("s"); jbytes = 0
                M += ["f %d" % (q + 1), "m"]
            queue = []
        elif len(live) > 1 and not queue:
            L += ["delks h%d" % k, "drop h%d" % k]
            M.append("d %d" % (k + 1)); alive.discard(k)
        else:
            continue
        L.append("info")
        checks.append((len(L), len(M) - 1))
    for k in sorted(alive):
        L.append("rotate h%d" % k); M.append("r %d" % (k + 1))
        if unflushed[k]:
            M.append("m")
            queue.append(k); unflushed[k] = 0
    L.append("drain")
    for q in queue:
        if jbytes > 64000000:
            M.append("s"); jbytes = 0
        M += ["f %d" % (q + 1), "m"]
    L.append("info")
    checks.append((len(L), len(M) - 1))
    L.append("exit 0")
    prog = "\n".join(L) + "\n"
    wd = workdir()
    try:
        db = C.fresh(wd)
        o, raw, rc = run_fjv(prog, dbdir=db, env_extra=C.shim_env(db, wd), timeout=900)
        if rc == -99 or any(v == "err timeout" for v in o.values()):
            return dict(prog=prog, model_ops=M, diffs=[], seals=0, steps=0, counts=[], incomplete=True)
        p = subprocess.run([FJM, "jmgr"], input="\n".join(M) + "\n", env=ENV, stdout=subprocess.PIPE, stderr=subprocess.PIPE, text=True)
        mo = [tuple(map(int, l.split())) for l in p.stdout.splitlines()]
        un = len([e for e in C.read_log(wd) if e["call"] in ("unlink", "unlinkat") and e["path"].endswith(".jnl") and e["ret"] == "0"])
        diffs = []
        for ln, mi in checks:
            m = re.search(r"journals=(\d+)", o.get(ln, ""))
            got = int(m.group(1)) if m else None
            if mi >= len(mo) or got != mo[mi][0]:
                diffs.append("line %d (%s): journal_count %s, model %s" % (ln, L[ln - 2], got, mo[mi][0] if mi < len(mo) else None))
        sealed_model = sum(1 for x in M if x == "s")
        final = mo[-1][0] if mo else None
        if not diffs and un != sealed_model - (final - 1):
            diffs.append("journal files unlinked: %d, model: %d sealed - %d still kept" % (un, sealed_model, final - 1))
        return dict(prog=prog, model_ops=M, diffs=diffs, seals=sealed_model, steps=len(checks), counts=[mo[mi][0] for _, mi in checks if mi < len(mo)])
    finally:
        shutil.rmtree(wd, ignore_errors=True)


def deleted_keyspace_eviction(variant):
    """a sealed journal whose watermarks cover three keyspaces: one flushed, one deleted afterwards, one still unflushed.
    Whatever the order of the watermarks (hash-map order: both deletions and several name sets are tried), the deleted
    keyspace must not let the journal go while the third keyspace's writes live only in it: after a crash they are there"""
    names, victim = variant
    keep = 3 - victim                     # handles 1 and 2 lag; one of them is deleted
    L = ["open plain jcomp=none"] + ["ks h%d %s mt=400000000" % (i, n) for i, n in enumerate(names)] + \
        ["put h1 6b01 b1", "put h2 6b02 c2", "put h0 6d00 00", "bigfill h0 66 1024 t0", "rotate h0", "drain", "journals",
         "delks h%d" % victim, "drop h%d" % victim, "put h0 6d01 01", "rotate h0", "drain", "journals", "exit 0"]
    prog = "\n".join(L) + "\n"
    wd = workdir()
    try:
        db = os.path.join(wd, "db")
        o, raw, rc = run_fjv(prog, dbdir=db, timeout=600)
        if rc == -99 or any(v == "err timeout" for v in o.values()) or o.get(len(names) + 8) != "2":
            return None                   # cut off, or the journal was not sealed: nothing to judge
        key, val = ("6b01", "b1") if keep == 1 else ("6b02", "c2")
        o2, raw2, rc2 = run_fjv("open plain\nks h0 %s\nget - h0 %s\njournals\n" % (names[keep], key), dbdir=db, timeout=300)
        if o2.get(3) != "some " + val:
            return ("keyspace %s was deleted while keyspace %s still had its only copy of %s=%s in the sealed journal; after the next "
                    "maintenance and a crash: open %s, get = %s (journal files before the crash: %s)"
                    % (names[victim], names[keep], key, val, o2.get(1), o2.get(3), o.get(len(L) - 1)), prog)
        return None
    finally:
        shutil.rmtree(wd, ignore_errors=True)


def sealing_race(variant):
    """a writer is inside its critical section (journal record appended, memtable not yet touched, journal lock held) when
    the flush tick that seals the > 64 MB journal arrives: the eviction watermarks must be taken after that writer has
    finished (under the journal lock), otherwise the sealed journal carries no watermark for the writer's keyspace, is
    unlinked once the other keyspace is flushed, and a crash loses the acknowledged write"""
    kind = variant
    w = {"put": "put h1 6b01 b1", "batch": "batch - h1:p:6b01:b1 h1:p:6b02:b2"}[kind]
    site = "ks.after_journal" if kind == "put" else "batch.after_seqno"
    L = ["open plain jcomp=none", "ks h0 alpha mt=400000000", "ks h1 beta mt=400000000", "put h0 6d00 00", "bigfill h0 66 1024 t0",
         "rotate h0", "pausepoint %s 1 hold" % site, "thread w %s &" % w, "waitpause %s" % site, "thread s step &", "sleep 400",
         "pausepoint %s 1 off" % site, "release %s" % site, "thread w has - h1 00", "thread s has - h1 00", "drain",
         "put h0 6d01 01", "rotate h0", "drain", "journals", "exit 0"]
    prog = "\n".join(L) + "\n"
    wd = workdir()
    try:
        db = os.path.join(wd, "db")
        o, raw, rc = run_fjv(prog, dbdir=db, timeout=600)
        if rc == -99 or any(v == "err timeout" for v in o.values()) or o.get(8) != "ok":
            return None                   # cut off: nothing to judge
        o2, raw2, rc2 = run_fjv("open plain\nks h1 beta\nget - h1 6b01\njournals\n", dbdir=db, timeout=300)
        if o2.get(3) != "some b1":
            return ("a writer to keyspace beta was inside its critical section when the flush tick sealed the journal; its acknowledged "
                    "write %s is gone after a crash: open %s, get = %s (journal files before the crash: %s)"
                    % (w, o2.get(1), o2.get(3), o.get(len(L) - 1)), prog)
        return None
    finally:
        shutil.rmtree(wd, ignore_errors=True)


DKE = [(ns, v) for ns in (("alpha", "beta", "gamma"), ("left", "right", "mid"), ("k1", "k2", "k3"), ("zeta", "eta", "theta")) for v in (1, 2)]


def run(rep, tier, seed, build):
    from common import proof_audit, TRUSTED_BASE
    obl, dis, pproblems = proof_audit("props/C10.v", THEOREMS, build["coq"])
    mc = pmap(mgr_conformance, [(i, seed) for i in range(4 if tier == "quick" else 40)], workers=4)
    dk = [x for x in pmap(deleted_keyspace_eviction, DKE[:4] if tier == "quick" else DKE, workers=4) if x]
    for msg, prog in dk[:1]:
        rep.violation("# C10: %s\n%s" % (msg, prog))
    sr = [x for x in pmap(sealing_race, ["put", "batch"], workers=2) if x]
    for msg, prog in sr[:1]:
        rep.violation("# C10: %s\n%s" % (msg, prog))
    n = 16 if tier == "quick" else 120
    results = pmap(eviction_workload, [(i, seed, tier) for i in range(n)], workers=6)
    bad = [r_ for r_ in results if r_["problems"]]
    for r_ in bad[:3]:
        p = r_["problems"][0]
        rep.violation("# C10: %s: %s\n# workload:\n%s" % (p[0], p[1], r_["prog"]))
    runs = sum(r_["runs"] for r_ in results)
    rep.coverage = dict(evaluations=runs, distinct_nontrivial=len({tuple(r_["unlinks"]) + tuple(r_["journals_seen"]) for r_ in results if r_["unlinks"]}),
                        rule="multi-keyspace workloads with 66 MiB of incompressible journal traffic per round (real rotation threshold), "
                             "keyspaces flushed in random order with one lagging, marker writes before/after; every unlink of N.jnl observed "
                             "through the shim: order must be oldest first, a crash right after the unlink must recover every acknowledged "
                             "write, journal_count returns to 1 after everything is flushed; non-trivial = at least one journal unlinked",
                        samples=[r_["sample"] for r_ in results if r_.get("sample")][:3], workloads=n,
                        journal_unlinks=sum(len(r_["unlinks"]) for r_ in results), incomplete_runs=sum(1 for r_ in results if r_.get("incomplete")) + sum(1 for x in mc if x.get("incomplete")), disagreements_checked=len(bad) + len([x for x in mc if x["diffs"]]),
                        deleted_keyspace_scenarios=4 if tier == "quick" else len(DKE), sealing_race_scenarios=2, model_conformance_workloads=len(mc), model_conformance_steps=sum(x["steps"] for x in mc),
                        model_conformance_seals=sum(x["seals"] for x in mc), model_conformance_sample=mc[0]["counts"] if mc else [],
                        obligations=obl, discharged=dis if not pproblems else min(dis, obl - 1),
                        checker_cmd="cd coq && make props/C10.vo (coqc 8.16.1) + Print Assumptions audit", trusted_base=TRUSTED_BASE,
                        programs=n + len(mc), traces_validated_against_impl=len(mc), proof_problems=pproblems)
    mcbad = [x for x in mc if x["diffs"]]
    if mcbad and not rep.violations:
        # journal counts differ from JournalMgr.v but no crash point lost anything and journals were unlinked in order:
        # a file kept longer / sealed at another moment is not by itself a violation
        x = mcbad[0]
        early = False
        for d_ in x["diffs"]:
            m_ = re.search(r"journal_count (\d+), model (\d+)", d_)
            if m_ and int(m_.group(1)) < int(m_.group(2)):
                early = True
        rep.violation("# C10: correspondence JournalMgr.v <-> journal manager no longer checks: %s\n# (a journal file %s than the model says; the crash-after-unlink "
                      "enumeration over %d workloads found no lost write)\n# model operations: %s\n%s"
                      % ("; ".join(x["diffs"][:3]), "is gone earlier" if early else "lives longer", n, " | ".join(collapse(x["model_ops"])), x["prog"]),
                      suffix="no-failing-input-found")
    if pproblems and not rep.violations:
        rep.violation("# C10: proof obligations no longer check\n" + "\n".join(pproblems) + "\n", suffix="no-failing-input-found")
    rep.assumptions = ["process-crash model at the unlink points (kill)",
                       "JournalMgr.v steps are the critical sections of the code; the translation of harness operations into model steps "
                       "(which flush task a worker tick takes, when the 64 000 000-byte threshold is passed) is part of the correspondence glue"]


def replay(rep, path, build):
    run(rep, "quick", rep.seed, build)
