"""C10 — a journal file is deleted only when nothing in it is still needed.
Real 64 MB journal traffic (bigfill), several keyspaces flushed in different orders with one lagging; every
unlink of a *.jnl is observed through the shim; a crash right after each unlink must lose nothing."""
import os, re, shutil, random, collections
from common import run_fjv, workdir, pmap
import crash as C

LEVEL = "fault_enumeration"
COQ_TARGETS = ()


def build_workload(seed):
    r = random.Random(seed)
    nks = r.choice([2, 2, 3])
    names = ["alpha", "beta", "gamma"][:nks]
    L = ["open plain jcomp=none"] + ["ks h%d %s" % (i, n) for i, n in enumerate(names)] + ["arm"]
    expect = {i: {} for i in range(nks)}        # small marker keys per keyspace
    big = {i: [] for i in range(nks)}           # (tag, count) bigfills
    deleted = set()
    tagc = 0

    def marker(i):
        k = "6d%02x" % r.randrange(256)
        v = "%02x%02x" % (r.randrange(256), r.randrange(256))
        L.append("put h%d %s %s" % (i, k, v))
        expect[i][k] = v

    for i in range(nks):
        marker(i)
    rounds = r.choice([1, 1, 2])
    for rd in range(rounds):
        filler = r.randrange(nks)
        tag = "t%d" % tagc
        tagc += 1
        L.append("bigfill h%d 66 1024 %s" % (filler, tag))
        big[filler].append((tag, 66))
        for i in range(nks):
            if r.random() < 0.7:
                marker(i)
        order = list(range(nks))
        r.shuffle(order)
        lag = order[-1] if r.random() < 0.6 else None
        for i in order:
            if i == lag:
                continue
            L.append("rotate h%d" % i)
            L.append("drain")
            L.append("info")
        if lag is not None:
            marker(lag)
            L.append("info")
            L.append("rotate h%d" % lag)
            L.append("drain")
            L.append("info")
    # finally flush everything: the number of journals must return to one
    for i in range(nks):
        L.append("rotate h%d" % i)
        L.append("drain")
    L.append("info")
    L.append("exit 0")
    return "\n".join(L) + "\n", names, expect, big


def verify_prog(names, expect, big):
    L = ["open plain"] + ["ks h%d %s" % (i, n) for i, n in enumerate(names)]
    want = []
    for i in range(len(names)):
        for k, v in sorted(expect[i].items()):
            L.append("get - h%d %s" % (i, k))
            want.append("some " + v)
        for tag, cnt in big[i]:
            for j in (0, cnt // 2, cnt - 1):
                L.append("size - h%d %s" % (i, ("bf%s%04d" % (tag, j)).encode().hex()))
                want.append("some %d" % (1024 * 1024))
    return "\n".join(L) + "\n", want, len(names) + 1


def restrict(expect, big, prog, last_line):
    """expected content given that only lines <= last_line were acknowledged"""
    e2 = {i: {} for i in expect}
    b2 = {i: [] for i in big}
    for ln, l in enumerate(prog.splitlines(), 1):
        if ln > last_line:
            break
        t = l.split()
        if t[0] == "put":
            e2[int(t[1][1:])][t[2]] = t[3]
        elif t[0] == "bigfill":
            b2[int(t[1][1:])].append((t[4], int(t[2])))
    return e2, b2


def eviction_workload(args):
    idx, seed, tier = args
    prog, names, expect, big = build_workload(seed * 67867967 + idx)
    wd = workdir()
    out = dict(prog=prog, problems=[], unlinks=[], runs=0, journals_seen=[])
    try:
        db = C.fresh(wd)
        obs, raw, rc = run_fjv(prog, dbdir=db, env_extra=C.shim_env(db, wd), timeout=300)
        evs = C.read_log(wd)
        un = [e for e in evs if e["call"] in ("unlink", "unlinkat") and e["path"].endswith(".jnl")]
        out["unlinks"] = [e["path"] for e in un]
        out["journals_seen"] = [int(m.group(1)) for v in obs.values() for m in [re.search(r"journals=(\d+)", v)] if m]
        ids = [int(os.path.basename(p)[:-4]) for p in out["unlinks"]]
        if ids != sorted(ids):
            out["problems"].append(("order", "journals unlinked out of order: %s" % ids))
        if not out["journals_seen"] or out["journals_seen"][-1] != 1:
            out["problems"].append(("count", "journal_count after flushing everything: %s" % out["journals_seen"][-3:]))
        if max(out["journals_seen"] or [0]) < 2 and not out["unlinks"]:
            out["problems"].append(("norotation", "workload never reached a journal rotation: %s" % out["journals_seen"]))
        # final content after a clean-less exit
        vp, want, off = verify_prog(names, expect, big)
        o2, _, _ = run_fjv(vp, dbdir=db, timeout=300)
        got = [o2.get(off + 1 + i) for i in range(len(want))]
        out["runs"] += 1
        if got != want:
            out["problems"].append(("final", "content after the run differs: %s vs %s" % (got, want)))
        # crash immediately after (and, thorough, immediately before) every journal unlink
        points = [(e["n"] + 1, "after") for e in un] + ([(e["n"], "before") for e in un] if tier != "quick" else [])
        for n, where in points:
            db = C.fresh(wd)
            o, raw, rc = run_fjv(prog, dbdir=db, env_extra=C.shim_env(db, wd, CRASH_AT=n), timeout=300)
            last = C.acked_ops(prog, o)
            e2, b2 = restrict(expect, big, prog, last)
            vp, want, off = verify_prog(names, e2, b2)
            o2, _, _ = run_fjv(vp, dbdir=db, timeout=300)
            got = [o2.get(off + 1 + i) for i in range(len(want))]
            out["runs"] += 1
            if o2.get(1) != "ok" or got != want:
                out["problems"].append(("crash-" + where, "crash %s unlink (event %d, last acknowledged line %d): open %s; "
                                        "acknowledged content missing: got %s want %s" % (where, n, last, o2.get(1), got, want)))
                break
        out["sample"] = dict(keyspaces=len(names), unlinked=out["unlinks"], journal_counts=out["journals_seen"],
                             ops=[l for l in prog.splitlines() if l.split()[0] in ("bigfill", "rotate")][:8])
        return out
    finally:
        shutil.rmtree(wd, ignore_errors=True)


def run(rep, tier, seed, build):
    n = 16 if tier == "quick" else 120
    results = pmap(eviction_workload, [(i, seed, tier) for i in range(n)], workers=6)
    bad = [r_ for r_ in results if r_["problems"]]
    for r_ in bad[:3]:
        p = r_["problems"][0]
        rep.violation("# C10: %s: %s\n# workload:\n%s" % (p[0], p[1], r_["prog"]))
    runs = sum(r_["runs"] for r_ in results)
    rep.coverage = dict(evaluations=runs, distinct_nontrivial=len({tuple(r_["unlinks"]) + tuple(r_["journals_seen"]) for r_ in results if r_["unlinks"]}),
                        rule="multi-keyspace workloads with 66 MiB of incompressible journal traffic per round (real rotation threshold), "
                             "keyspaces flushed in random order with one lagging, marker writes before/after; every unlink of N.jnl observed "
                             "through the shim: order must be oldest first, a crash right after the unlink must recover every acknowledged "
                             "write, journal_count returns to 1 after everything is flushed; non-trivial = at least one journal unlinked",
                        samples=[r_["sample"] for r_ in results if r_.get("sample")][:3], workloads=n,
                        journal_unlinks=sum(len(r_["unlinks"]) for r_ in results), disagreements_checked=len(bad))
    rep.assumptions = ["process-crash model at the unlink points (kill)"]


def replay(rep, path, build):
    run(rep, "quick", rep.seed, build)
