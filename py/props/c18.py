"""C18 — compaction filters act only where assigned, and only as their verdicts say."""
from gen import Gen, NAMES
from seqdiff import run_seq
from seqprop import coverage, replay_file, corpus, audit

LEVEL = "proof"
COQ_TARGETS = ("props/C18.vo",)
THEOREMS = ['C18_compaction_acts_as_the_verdict_says', 'C18_compaction_touches_only_its_keyspace', 'C18_other_maintenance_never_filters',
            'C18_filter_verdicts_partial', 'C18_assignment_on_create_partial', 'C18_filtered_form_stable_partial',
            'C18_stays_filtered_refuted']
RULE = ("2-3 keyspaces of which one or two have a filter assigned by name (keep / remove / replace decided from the first key "
        "byte), random programs with rotate/step/drain/major and reopen; results compared between implementation, model and "
        "oracle (the model applies the verdicts in its compaction stream: kept keys exact, removed/replaced keys in original "
        "or filtered form, filtered-once-stays-filtered; unfiltered keyspaces exact)")

FILTERS = [{"alpha": "r61"}, {"beta": "r62,p61:ff"}, {"alpha": "p62:-", "gamma": "r7a"}, {"alpha": "r61,r62,p63:aabb"}]

# keyspace configurations drawn per keyspace: standard, key-value separation (threshold 1 / 8 bytes); FIFO is documented for insert-only workloads with monotone keys only (lsm-tree asserts a disjoint L0) and is exercised by dedicated scenarios
CONFIGS = ["", "", "blob=8", "blob=1"]


def programs(seed, n, nops):
    out = []
    for i in range(n):
        mode = ["plain", "plain", "sw", "occ"][i % 4]
        g = Gen(seed * 100207 + i, mode=mode, nks=2 + i % 2, filters=FILTERS[i % len(FILTERS)],
                sealing=(2 if i >= n - max(12, n // 12) else 0), configs=CONFIGS,
                weights=dict(reopen=1.5, snap=0.5, it=0, tx=0, txop=0, gc=0.5, ks=0.2, delks=0, ingest=1, clear=0.5,
                             major=4, rotate=5, step=5, put=10, delete=3, batch=2, get=4, scan=3, misc=1))
        # strategy-driven merges (which would apply the filter to an unpredictable subset of tables) need >= 4 L0 tables:
        # Gen.cap keeps at most 3 between two major compactions (rotations, ingestions, fills)
        # after a reopen the implementation queues a compaction only for keyspaces with L0 runs, the model for every keyspace
        # with tables (it has no levels): empty the queue on both sides before going on, so that later `step`s take the same task
        p = g.program(nops)
        g.lines = []
        g.emit("drain")
        for h in g.handles:
            g.emit("major h%d" % h)
        g.probe()
        g.op_reopen()
        g.probe()
        out.append(p + "\n".join(g.lines) + "\n")
    return out


def parse_rules(open_line):
    """filters=<name>:<rule>[;...] -> {name: {first byte (2 hex): ('r',) | ('p', valhex)}}"""
    out = {}
    for tok in open_line.split():
        if tok.startswith("filters="):
            for part in tok[len("filters="):].split(";"):
                name, rule = part.split(":", 1)
                d = {}
                for it in rule.split(","):
                    if it.startswith("r"):
                        d[it[1:3]] = ("r",)
                    elif it.startswith("p"):
                        b, v = it[1:].split(":", 1)
                        d[b] = ("p", v)
                out[name] = d
    return out


def stays_filtered(prog, obs):
    """Independent monitor over the implementation's own observations (no model involved): after `put k v` into a filtered
    keyspace, a latest-state read of k may show v or the filtered form; once it showed the filtered form it must not show v
    again until k is written again.  Returns a list of (line, key, rule kind, reopen in between, filtered at line)."""
    lines = prog.splitlines()
    rules = parse_rules(lines[0]) if lines else {}
    if not rules:
        return []
    handle, st, out = {}, {}, []          # st[(name, key)] = [orig value, filtered at line or None]
    reopens = []

    def forget(name=None, key=None):
        for kk in [kk for kk in st if (name is None or kk[0] == name) and (key is None or kk[1] == key)]:
            del st[kk]

    def see(name, key, val, ln):
        s_ = st.get((name, key))
        rule = rules.get(name, {}).get(key[:2])
        if not s_ or not rule:
            return
        filt = "none" if rule[0] == "r" else "some " + rule[1]
        if filt == "some " + s_[0]:
            return
        if val == filt:
            if s_[1] is None:
                s_[1] = ln
        elif val == "some " + s_[0] and s_[1] is not None:
            out.append((ln, name, key, rule[0], any(s_[1] < r_ < ln for r_ in reopens), s_[1]))
            s_[1] = None

    for ln, l in enumerate(lines, 1):
        t = l.split()
        if not t:
            continue
        res = obs.get(ln)
        if t[0] == "reopen":
            reopens.append(ln)
            handle = {}
        elif t[0] == "ks" and len(t) >= 3 and res == "ok":
            handle[t[1]] = t[2]
        elif t[0] == "put" and len(t) >= 4:
            name = handle.get(t[1])
            forget(name, t[2])
            if res == "ok" and name in rules:
                st[(name, t[2])] = [t[3] if t[3] != "-" else "", None]
        elif t[0] in ("del", "delw", "take", "fu", "uf") and len(t) >= 3:
            forget(handle.get(t[1]), t[2])
        elif t[0] == "batch":
            for it in t[2:]:
                f = it.split(":")
                if len(f) >= 3:
                    name = handle.get(f[0])
                    forget(name, f[2])
                    if f[1] == "p" and len(f) >= 4 and res == "ok" and name in rules:
                        st[(name, f[2])] = [f[3] if f[3] != "-" else "", None]
        elif t[0] in ("clear", "ingest", "delks") and len(t) >= 2:
            forget(handle.get(t[1]))
        elif t[0] == "tx":
            forget()
        elif t[0] == "get" and len(t) >= 4 and t[1] == "-" and res:
            v = res if res != "some -" else "some "
            see(handle.get(t[2]), t[3], v, ln)
        elif t[0] == "dump" and res and "{" in res:
            seen = {}
            for part in res.split(";"):
                if "{" in part:
                    name, body = part[:-1].split("{", 1)
                    seen[name] = dict(kv.split("=") for kv in body.split(",") if "=" in kv)
            for (name, key) in list(st):
                if name in seen:
                    v = seen[name].get(key)
                    see(name, key, "none" if v is None else "some " + ("" if v == "-" else v), ln)
    return out


def sealed_journal_filter(variant):
    """a filtered keyspace whose original writes still sit in a SEALED journal (> 64 MB of traffic, journal kept alive by a
    lagging second keyspace): once a compaction has replaced/removed items, a reopen must not bring the originals back"""
    from common import run_fjv
    rule = ["alpha:p61:ff", "alpha:r61", "alpha:p61:ff,r63"][variant % 3]
    if variant >= 3:
        # the filtered keyspace is only PARTLY flushed when the journal is sealed: a later write of it is still in the memtable
        L = ["open plain jcomp=none filters=%s" % rule, "ks h0 alpha", "ks h1 beta", "put h1 71 01", "put h0 61 aa", "put h0 63 cc",
             "put h0 62 bb", "rotate h0", "drain", "major h0", "put h0 65 ee", "bigfill h1 66 1024 t0", "rotate h1", "drain", "info",
             "get - h0 61", "get - h0 63", "reopen", "ks h0 alpha", "ks h1 beta", "get - h0 61", "get - h0 63", "get - h0 62", "get - h1 71",
             "reopen", "ks h0 alpha", "get - h0 61", "get - h0 63"]
        prog = "\n".join(L) + "\n"
        o, raw, rc = run_fjv(prog, timeout=300)
        before, after, after2 = (o.get(16), o.get(17)), (o.get(21), o.get(22)), (o.get(27), o.get(28))
        want61 = {0: "some ff", 1: "none", 2: "some ff"}[variant % 3]
        want63 = {0: "some cc", 1: "some cc", 2: "none"}[variant % 3]
        if before != (want61, want63) or "journals=2" not in (o.get(15) or ""):
            return None
        if after != before or after2 != before or o.get(23) != "some bb" or o.get(24) != "some 01":
            return ("items filtered by a compaction (61 -> %s, 63 -> %s), keyspace partly flushed when the journal was sealed: read %s "
                    "after reopen and %s after a second reopen; unfiltered key 62 = %s, other keyspace 71 = %s"
                    % (before[0], before[1], after, after2, o.get(23), o.get(24)), prog)
        return None
    L = ["open plain jcomp=none filters=%s" % rule, "ks h0 alpha", "ks h1 beta", "put h1 71 01", "put h0 61 aa", "put h0 63 cc",
         "put h0 62 bb", "bigfill h0 66 1024 t0", "rotate h0", "drain", "major h0", "info", "get - h0 61", "get - h0 63",
         "reopen", "ks h0 alpha", "ks h1 beta", "get - h0 61", "get - h0 63", "get - h0 62", "get - h1 71",
         "reopen", "ks h0 alpha", "get - h0 61", "get - h0 63"]
    prog = "\n".join(L) + "\n"
    o, raw, rc = run_fjv(prog, timeout=300)
    before = (o.get(13), o.get(14))
    after = (o.get(18), o.get(19))
    after2 = (o.get(24), o.get(25))
    want61 = {0: "some ff", 1: "none", 2: "some ff"}[variant]
    want63 = {0: "some cc", 1: "some cc", 2: "none"}[variant]
    if before != (want61, want63):
        return None      # the compaction did not apply the filter to these items (allowed): nothing to judge
    if after != before or after2 != before or o.get(20) != "some bb" or o.get(21) != "some 01":
        return ("items filtered by a compaction (61 -> %s, 63 -> %s) read %s after reopen and %s after a second reopen; "
                "unfiltered key 62 = %s, other keyspace 71 = %s" % (before[0], before[1], after, after2, o.get(20), o.get(21)), prog)
    return None


def config_filter(args):
    """the filter assigned to a name is in effect whatever the keyspace's configuration (FIFO strategy, key-value separation,
    leveled with other parameters), for a newly created keyspace and for one recovered on reopen; an unfiltered keyspace with
    the same configuration is untouched.  Insert-only with increasing keys, as FIFO is documented for.  After a flush and a
    major compaction (which merges every table whatever the strategy) the filtered forms must be read."""
    from common import run_fjv
    cfg, recovered = args
    c = (" " + cfg) if cfg else ""
    L = ["open plain filters=alpha:r61,p62:ff", "ks h0 alpha" + c, "ks h1 beta" + c,
         "put h0 6101 aa", "put h0 6201 bb", "put h0 6301 cc", "put h1 6101 aa", "put h1 6201 bb"]
    if recovered:
        L += ["reopen", "ks h0 alpha" + c, "ks h1 beta" + c, "put h0 6102 ab", "put h0 6202 bc", "put h1 6202 bc"]
    L += ["rotate h0", "rotate h1", "drain", "major h0", "major h1"]
    g0 = len(L)
    L += ["get - h0 6101", "get - h0 6201", "get - h0 6301", "get - h1 6101", "get - h1 6201", "scan - h0 fwd all", "scan - h1 fwd all"]
    prog = "\n".join(L) + "\n"
    o, raw, rc = run_fjv(prog, timeout=120)
    got = [o.get(g0 + i) for i in range(1, 8)]
    want = ["none", "some ff", "some cc", "some aa", "some bb",
            "6201=ff,6202=ff,6301=cc" if recovered else "6201=ff,6301=cc",
            "6101=aa,6201=bb,6202=bc" if recovered else "6101=aa,6201=bb"]
    if got != want:
        return ("filter r61,p62:ff assigned to 'alpha' (configuration %r, %s keyspace): after flush + major compaction reads are %s, "
                "expected %s" % (cfg, "recovered" if recovered else "new", got, want), prog)
    return None


def run(rep, tier, seed, build):
    from common import pmap
    cf = [x for x in pmap(config_filter, [(c, r) for c in ("", "fifo=4000000000", "blob=1", "leveled=2") for r in (False, True)], workers=4) if x]
    for msg, prog in cf[:2]:
        rep.violation("# C18: %s\n%s" % (msg, prog))
    sj = [x for x in pmap(sealed_journal_filter, (seed % 3, 3 + (seed + 1) % 3) if tier == "quick" else (0, 1, 2, 3, 4, 5), workers=3) if x]
    for msg, prog in sj[:1]:
        rep.violation("# C18: %s\n%s" % (msg, prog))
    n, nops = (240, 45) if tier == "quick" else (5000, 90)
    audit(rep, "props/C18.v", THEOREMS, build)
    progs = corpus("C18") + programs(seed, n, nops)
    res = run_seq(rep, progs)
    # the monitor judges the implementation's observations on their own
    from common import known_switch
    mon, known_hits = 0, 0
    for ev in res["results"]:
        for (ln, name, key, kind, reopened, at) in stays_filtered(ev["prog"], ev["impl"]):
            mon += 1
            f = known_switch("C18", "remove_verdict_reopen")
            if kind == "r" and reopened and f and ev["d_corr"] is None:
                known_hits += 1
                rep.known_finding("remove_verdict_reopen (%s): %s" % (f["id"], f["what"]))
            elif len(rep.violations) < 3:
                rep.violation("# C18: key %s of keyspace %s was observed in its filtered form at line %d and reads its original value "
                              "again at line %d with no write in between (verdict kind %s, reopen in between: %s)\n%s"
                              % (key, name, at, ln, kind, reopened, ev["prog"]))
    coverage(rep, res, progs, RULE, dict(stays_filtered_monitor_hits=mon, known_finding_hits=known_hits, configuration_scenarios=8))


def replay(rep, path, build):
    replay_file(rep, path)
