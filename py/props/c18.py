"""C18 — compaction filters act only where assigned, and only as their verdicts say."""
from gen import Gen, NAMES
from seqdiff import run_seq
from seqprop import coverage, replay_file, corpus, audit

LEVEL = "translation_validation"
COQ_TARGETS = ("props/C18.vo",)
THEOREMS = ['C18_filter_verdicts_partial', 'C18_assignment_on_create_partial']
RULE = ("2-3 keyspaces of which one or two have a filter assigned by name (keep / remove / replace decided from the first key "
        "byte), random programs with rotate/step/drain/major and reopen; results compared between implementation, model and "
        "oracle (the model applies the verdicts in its compaction stream: kept keys exact, removed/replaced keys in original "
        "or filtered form, filtered-once-stays-filtered; unfiltered keyspaces exact)")

FILTERS = [{"alpha": "r61"}, {"beta": "r62,p61:ff"}, {"alpha": "p62:-", "gamma": "r7a"}, {"alpha": "r61,r62,p63:aabb"}]


def programs(seed, n, nops):
    out = []
    for i in range(n):
        mode = ["plain", "plain", "sw", "occ"][i % 4]
        g = Gen(seed * 100207 + i, mode=mode, nks=2 + i % 2, filters=FILTERS[i % len(FILTERS)],
                weights=dict(reopen=1.5, snap=0.5, it=0, tx=0, txop=0, gc=0.5, ks=0.2, delks=0, ingest=1, clear=0.5,
                             major=4, rotate=5, step=5, put=10, delete=3, batch=2, get=4, scan=3, misc=1))
        # strategy-driven merges (which would apply the filter to an unpredictable subset of tables) need >= 4
        # L0 runs: keep at most 3 rotations between two major compactions
        orig_rotate = g.op_rotate
        def rot(g=g, orig=orig_rotate):
            g.nrot = getattr(g, "nrot", 0) + 1
            if g.nrot >= 3:
                g.emit("drain")
                for h in g.handles:
                    g.emit("major h%d" % h)
                g.nrot = 0
                g.rot = 0
            orig()
        g.op_rotate = rot
        p = g.program(nops)
        g.lines = []
        g.emit("drain")
        for h in g.handles:
            g.emit("major h%d" % h)
        g.probe()
        g.op_reopen()
        g.probe()
        out.append(p + "\n".join(g.lines) + "\n")
    return out


def run(rep, tier, seed, build):
    n, nops = (240, 45) if tier == "quick" else (5000, 90)
    audit(rep, "props/C18.v", THEOREMS, build)
    progs = corpus("C18") + programs(seed, n, nops)
    res = run_seq(rep, progs)
    coverage(rep, res, progs, RULE)


def replay(rep, path, build):
    replay_file(rep, path)
