"""C05 — snapshots, read transactions and iterators are frozen in time."""
from gen import Gen
from seqdiff import run_seq
from seqprop import coverage, replay_file, corpus, audit

LEVEL = "proof"
COQ_TARGETS = ("props/C05.vo",)
THEOREMS = ["C05_tracker_invariants", "C05_reads_frozen", "C05_fjall_parameters_ok", "C05_select_defined"]
RULE = ("programs with up to 5 concurrently live views (snapshots / read_tx, write-transaction read views, lazily consumed "
        "iterators from iter/range/prefix, consumed from either end), some opened before the first write (instant 0) and "
        "several at the same instant, closed in random order, interleaved with writes, clears, ingestion, rotate/step/"
        "drain/major and forced gc/pullup; every view is re-read after later operations and at the end; compared between "
        "implementation, model(as_is) and oracle(ideal); non-trivial = >= 4 distinct operation kinds")


def programs(seed, n, nops):
    out = []
    for i in range(n):
        mode = ["plain", "occ", "sw", "occ"][i % 4]
        g = Gen(seed * 100057 + i, mode=mode, nks=1 + i % 2, maxviews=5,
                weights=dict(reopen=0, snap=5, it=5, tx=2 if mode != "plain" else 0, txop=3 if mode != "plain" else 0,
                             gc=2, ks=0.2, delks=0, ingest=1.5, clear=1, major=1, rotate=4, step=4, put=10, delete=4,
                             get=6, scan=5))
        g.emit("open " + mode)
        if i % 3 == 0:
            g.emit("snap s90 open")
            g.snaps.append("s90")
        for k in range(g.nks):
            g.open_ks(k)
        for _ in range(nops):
            g.step()
        for s in list(g.snaps) + list(g.txs):
            for h in g.handles:
                g.emit("scan %s h%d fwd all" % (s, h))
        for it in g.iters:
            g.emit("it %s next" % it)
            g.emit("it %s back" % it)
        out.append("\n".join(g.lines) + "\n")
    return out


def run(rep, tier, seed, build):
    n, nops = (240, 45) if tier == "quick" else (4000, 110)
    audit(rep, "props/C05.v", THEOREMS, build)
    progs = corpus("C05") + programs(seed, n, nops)
    res = run_seq(rep, progs)
    coverage(rep, res, progs, RULE)


def replay(rep, path, build):
    replay_file(rep, path)
