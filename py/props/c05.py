"""C05 — snapshots, read transactions and iterators are frozen in time."""
from gen import Gen
from seqdiff import run_seq
from seqprop import coverage, replay_file, corpus, audit

LEVEL = "proof"
COQ_TARGETS = ("props/C05.vo",)
THEOREMS = ["C05_tracker_invariants", "C05_reads_frozen", "C05_fjall_parameters_ok", "C05_select_defined",
            "C05_live_view_frozen_by_every_operation", "C05_tracker_invariant_kept", "C05_snapshot_frozen"]
RULE = ("programs with up to 5 concurrently live views (snapshots / read_tx, write-transaction read views, lazily consumed "
        "iterators from iter/range/prefix, consumed from either end), some opened before the first write (instant 0) and "
        "several at the same instant, closed in random order, interleaved with writes, clears, ingestion, rotate/step/"
        "drain/major and forced gc/pullup; every view is re-read after later operations and at the end; compared between "
        "implementation, model(as_is) and oracle(ideal); non-trivial = >= 4 distinct operation kinds")


def programs(seed, n, nops):
    out = []
    for i in range(n):
        mode = ["plain", "occ", "sw", "occ"][i % 4]
        g = Gen(seed * 100057 + i, mode=mode, nks=1 + i % 2, maxviews=5,
                weights=dict(reopen=0, snap=5, it=5, tx=2 if mode != "plain" else 0, txop=3 if mode != "plain" else 0,
                             gc=2, ks=0.2, delks=0, ingest=1.5, clear=1, major=1, rotate=4, step=4, put=10, delete=4,
                             get=6, scan=5))
        g.emit("open " + mode)
        if i % 3 == 0:
            g.emit("snap s90 open")
            g.snaps.append("s90")
        for k in range(g.nks):
            g.open_ks(k)
        for _ in range(nops):
            g.step()
        for s in list(g.snaps) + list(g.txs):
            for h in g.handles:
                g.emit("scan %s h%d fwd all" % (s, h))
        for it in g.iters:
            g.emit("it %s next" % it)
            g.emit("it %s back" % it)
        out.append("\n".join(g.lines) + "\n")
    return out


def open_race(kind, mode):
    """a view is being opened on another thread and is held between loading its instant and registering it
    (pause point tracker.open.after_load, gc read lock held); meanwhile a writer overwrites, rotates (pullup + gc +
    version-history maintenance), compacts.  After release the view must read its instant's state, now and after more
    maintenance.  (pullup and gc take the exclusive gc lock, so they wait for the registration.)"""
    from common import run_fjv
    L = ["open %s" % mode, "ks h0 alpha", "put h0 61 01", "put h0 62 02", "rotate h0", "drain",
         "pausepoint tracker.open.after_load 1 hold",
         "thread r snap s0 open &", "waitpause tracker.open.after_load",
         "thread w put h0 61 11 &", "sleep 50",
         # a newer super-version is installed inside the window, then more writes
         "thread w major h0 &", "sleep 100", "thread w put h0 62 12 &", "sleep 50"]
    if kind == "pullup":
        L += ["thread w rotate h0 &"]
    elif kind == "gc":
        L += ["thread w pullup &"]
    else:
        L += ["thread w major h0 &"]
    L += ["sleep 200", "pausepoint tracker.open.after_load 1 off", "release tracker.open.after_load", "sleep 300",
          "thread w put h0 62 22", "thread w rotate h0", "drain", "major h0", "thread w put h0 61 21", "thread w rotate h0", "drain",
          "major h0", "gc", "thread r get s0 h0 61", "thread r scan s0 h0 fwd all", "get - h0 61"]
    prog = "\n".join(L) + "\n"
    o, raw, rc = run_fjv(prog, env_extra={"FJV_SYNC_TIMEOUT_MS": "8000"}, timeout=90)
    n = len(L)
    g, sc, last = o.get(n - 2), o.get(n - 1), o.get(n)
    ok = (g == "some 01" and sc == "61=01,62=02" and last == "some 21")
    return None if ok else ("view opened while %s ran concurrently reads %s / %s (expected some 01 / 61=01,62=02); latest %s"
                            % (kind, g, sc, last), prog)


def inflight(reopened, mode):
    """a view opened while a write is in flight (single insert held after its journal append; batch held after its first
    item) must read the same before and after that write completes — on a fresh and on a recovered database (the snapshot
    tracker of a reopened database is built by Database::recover)"""
    from common import run_fjv
    L = ["open %s" % mode, "ks h0 alpha", "put h0 61 01", "put h0 62 02"]
    if reopened:
        L += ["reopen", "ks h0 alpha"]
    # a single insert on a transactional database is a transaction commit: it goes through the batch path
    site = "ks.after_journal" if mode == "plain" else "batch.after_seqno"
    L += ["pausepoint %s 1 hold" % site, "thread w put h0 6b 0b &", "waitpause %s" % site,
          "snap s0 open", "scan s0 h0 fwd all", "pausepoint %s 1 off" % site, "release %s" % site, "sleep 150",
          "thread w get - h0 6b", "scan s0 h0 fwd all",
          "pausepoint batch.after_item 1 hold", "thread w batch - h0:p:71:01 h0:p:72:02 h0:p:73:03 &", "waitpause batch.after_item",
          "snap s1 open", "scan s1 h0 fwd all", "pausepoint batch.after_item 1 off", "release batch.after_item", "sleep 150",
          "thread w get - h0 73", "scan s1 h0 fwd all", "scan s0 h0 fwd all"]
    prog = "\n".join(L) + "\n"
    o, raw, rc = run_fjv(prog, env_extra={"FJV_SYNC_TIMEOUT_MS": "8000"}, timeout=90)
    idx = [i + 1 for i, l in enumerate(L) if l.startswith("scan s")]
    a0, a1, b0, b1, a2 = [o.get(i) for i in idx]
    ok = (a0 == a1 == a2 == "61=01,62=02" and b0 == b1 and b0 in ("61=01,62=02,6b=0b",))
    return None if ok else ("view opened while a write was in flight (%s database) changed: s0 %s -> %s -> %s, s1 %s -> %s"
                            % ("recovered" if reopened else "fresh", a0, a1, a2, b0, b1), prog)


def run(rep, tier, seed, build):
    n, nops = (240, 45) if tier == "quick" else (4000, 110)
    audit(rep, "props/C05.v", THEOREMS, build)
    progs = corpus("C05") + programs(seed, n, nops)
    res = run_seq(rep, progs)
    from common import pmap_confirm
    sched = [(kind, mode) for kind in ("pullup", "gc", "major") for mode in (("plain",) if tier == "quick" else ("plain", "sw", "occ"))]
    rr, unconf = pmap_confirm(lambda a: open_race(*a), sched, lambda x: bool(x), workers=3)
    for bad in [x for x in rr if x][:2]:
        rep.violation("# C05: %s\n%s" % bad)
    sched2 = [(ro, mode) for ro in (False, True) for mode in (("plain", "occ") if tier == "quick" else ("plain", "sw", "occ"))]
    rr2, unconf2 = pmap_confirm(lambda a: inflight(*a), sched2, lambda x: bool(x), workers=3)
    for bad in [x for x in rr2 if x][:2]:
        rep.violation("# C05: %s\n%s" % bad)
    coverage(rep, res, progs, RULE, dict(open_race_schedules=len(sched), inflight_schedules=len(sched2), unconfirmed_alarms=unconf + unconf2))


def replay(rep, path, build):
    replay_file(rep, path)
