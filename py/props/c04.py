"""C04 — close and reopen reproduces exactly the same logical content."""
from gen import Gen
from seqdiff import run_seq

LEVEL = "translation_validation"
COQ_TARGETS = ()


def programs(seed, n, nops):
    out = []
    for i in range(n):
        mode = ["plain", "plain", "sw", "occ"][i % 4]
        g = Gen(seed * 100019 + i, mode=mode, nks=1 + i % 3,
                weights=dict(reopen=2.5, snap=0, it=0, tx=0, txop=0, gc=0.3, ks=0.3, delks=0, ingest=3, clear=1.5,
                             major=1.5, rotate=3, step=3))
        p = g.program(nops)
        # final reopen + full observation
        g.lines = []
        g.op_reopen()
        g.probe()
        out.append(p + "\n".join(g.lines) + "\n")
    return out


def run(rep, tier, seed, build):
    n, nops = (240, 40) if tier == "quick" else (5000, 100)
    progs = programs(seed, n, nops)
    res = run_seq(rep, progs)
    st = res["stats"]
    rep.coverage = dict(programs=st["programs"], disagreements_checked=st["disagreements_checked"],
                        evaluations=st["ops"], distinct_nontrivial=res["distinct"],
                        rule="generated histories with 1-5 reopen cycles, ingestion into empty and non-empty keyspaces over "
                             "existing keys, clear, flush/compaction steps; dump before close and after reopen, full probe "
                             "(scans + point reads) at the end; compared between implementation, model(as_is), oracle(ideal); "
                             "non-trivial = >= 4 distinct operation kinds, distinct by operation-kind sequence",
                        samples=[progs[0].splitlines()[:14]], op_histogram=dict(res["ophist"]),
                        known_finding_programs=st["known_finding_programs"],
                        correspondence_failures=st.get("correspondence_failures", 0))


def replay(rep, path, build):
    prog = "".join(l for l in open(path) if not l.startswith("#"))
    run_seq(rep, [prog], shrink=False)
    rep.coverage = dict(programs=1, disagreements_checked=len(rep.violations), samples=[prog.splitlines()[:10]])
