"""C04 — close and reopen reproduces exactly the same logical content."""
from gen import Gen
from seqdiff import run_seq

LEVEL = "translation_validation"
COQ_TARGETS = ("props/C04.vo",)
THEOREMS = ["C04_recovery_restores_the_write_invariant", "C04_reads_agree_after_reopen", "C04_reopen_cycles_keep_invariants",
            "C04_covered_records_not_replayed_partial", "C04_uncovered_records_replayed_partial", "C04_covered_example",
            "C04_reopen_identity_refuted"]


def programs(seed, n, nops):
    out = []
    for i in range(n):
        mode = ["plain", "plain", "sw", "occ"][i % 4]
        # the last tenth of the programs pushes the journal over its rotation threshold (sealed journals take part)
        g = Gen(seed * 100019 + i, mode=mode, nks=1 + i % 3, configs=["", "", "blob=8", "blob=1"], sealing=(2 + i % 2 if i >= n - max(16, n // 10) else 0),
                weights=dict(reopen=2.5, snap=0, it=0, tx=0, txop=0, gc=0.3, ks=0.3, delks=0, ingest=3, clear=1.5,
                             major=1.5, rotate=3, step=3))
        p = g.program(nops)
        # final reopen + full observation
        g.lines = []
        g.op_reopen()
        g.probe()
        out.append(p + "\n".join(g.lines) + "\n")
    return out


def parse_dump(d):
    out = {}
    for part in (d or "").split(";"):
        if "{" in part:
            name, body = part[:-1].split("{", 1)
            out[name] = dict(kv.split("=") for kv in body.split(",") if "=" in kv)
    return out


def reopen_identity(prog, obs):
    """Independent judge on the implementation's own observations: the `dump` right before a `reopen` and the first `dump`
    after it must be equal.  Returns a list of (reopen line, dump before, dump after)."""
    lines = prog.splitlines()
    out = []
    for i, l in enumerate(lines, 1):
        if l.strip() != "reopen":
            continue
        b = next((j for j in range(i - 1, 0, -1) if lines[j - 1].strip() == "dump"), None)
        a = next((j for j in range(i + 1, len(lines) + 1) if lines[j - 1].strip() == "dump"), None)
        if b is None or a is None or b != i - 1:
            continue
        # nothing but re-binding handles, the journal count and a drain may lie between the reopen and the second dump
        if any(lines[j - 1].split()[0] not in ("ks", "journals", "drain", "names") for j in range(i + 1, a)):
            continue
        db_, da_ = obs.get(b), obs.get(a)
        if db_ is None or da_ is None or not obs.get(i, "").startswith("ok"):
            continue
        if parse_dump(db_) != parse_dump(da_):
            out.append((i, db_, da_))
    return out


def ingest_race(args):
    """a writer arrives while a bulk ingestion holds the journal lock (held at ingest.finish.locked): whatever order the two
    take effect in, the content right before the close and after the reopen must be the same, and the writer's
    acknowledged write to a key the ingestion does not touch must be there"""
    from common import run_fjv
    mode, wkind, pre = args[:3]
    hold = len(args) > 3 and args[3]
    L = ["open %s" % mode, "ks h0 alpha", "ks h1 beta", "put h0 61 01", "put h1 71 11"]
    if pre == "flushed":
        L += ["rotate h0", "drain"]
    L += ["pausepoint ingest.finish.locked 1 hold", "thread i ingest h0 62=02 63=03 &", "waitpause ingest.finish.locked"]
    w = {"put": "put h0 64 04", "put_same": "put h0 62 0f", "del": "del h0 61", "batch": "batch - h0:p:64:04 h1:p:72:12",
         "tx": "wtx t1", "other": "put h1 72 12"}[wkind]
    # hold: the writer itself is held between its journal append and its memtable insert; if the ingestion did not keep the
    # journal lock over its flush and registration, the writer would get there while the ingestion is parked, and its entry
    # would end up in the memtable ABOVE an ingested table that carries a higher seqno
    wsite = "batch.after_seqno" if wkind in ("batch", "tx") else "ks.after_journal"
    if hold:
        L += ["pausepoint %s 1 hold" % wsite]
    if wkind == "tx":
        L += ["thread w tx t1 begin", "thread w tx t1 put h0 64 04", "thread w tx t1 commit &"]
    else:
        L += ["thread w %s &" % w]
    # after the release: a synchronous no-op on each thread is a barrier (threads run their queues in order)
    L += ["sleep 250", "release ingest.finish.locked", "thread i has - h1 00"]
    if hold:
        L += ["sleep 100", "pausepoint %s 1 off" % wsite, "release %s" % wsite]
    L += ["thread w has - h1 00", "put h1 73 13"]
    g0 = len(L)
    L += ["get - h0 61", "get - h0 62", "get - h0 63", "get - h0 64", "scan - h0 fwd all", "scan - h0 rev all"]
    L += ["dump", "reopen", "dump", "reopen", "dump"]
    prog = "\n".join(L) + "\n"
    o, raw, rc = run_fjv(prog, env_extra={"FJV_SYNC_TIMEOUT_MS": "5000"}, timeout=60)
    n = len(L)
    before, after, after2 = o.get(n - 4), o.get(n - 2), o.get(n)
    problems = []
    # point reads and scans of the quiescent keyspace must agree (C01), whatever order the two operations took effect in
    sc = dict(x.split("=") for x in (o.get(g0 + 5) or "").split(",") if "=" in x)
    for j, key in enumerate(("61", "62", "63", "64")):
        g = o.get(g0 + 1 + j)
        want = "some " + sc[key] if key in sc else "none"
        if g is not None and o.get(g0 + 5) is not None and not o.get(g0 + 5).startswith(("err", "panic")) and g != want:
            problems.append("point read of %s returns %s but the scan shows %s (scan %s)" % (key, g, sc.get(key), o.get(g0 + 5)))
    if before is None or "{" not in (before or ""):
        problems.append("schedule did not complete: %r" % (raw[-300:],))
    elif before != after or after != after2:
        problems.append("content before close %s, after reopen %s, after second reopen %s" % (before, after, after2))
    else:
        need = {"put": "64=04", "batch": "64=04", "tx": "64=04", "other": "72=12"}.get(wkind)
        if need and need not in before:
            problems.append("acknowledged write %s missing: %s" % (need, before))
        if "63=03" not in before:
            problems.append("ingested data missing: %s" % before)
    return dict(prog=prog, problems=problems)


def sealed_journal_history(variant):
    """histories whose journal records end up in a SEALED journal (> 64 MB of traffic in another keyspace, the journal kept
    alive by unflushed data): tables that are newer than some of those records (bulk ingestion over a journaled key, ingestion
    after a clear) must win after reopen exactly as before it; dump before close = dump after reopen, point reads = scans"""
    from common import run_fjv
    body = {0: ["put h0 61 aa", "ingest h0 61=bb"],
            1: ["put h0 61 aa", "clear h0", "ingest h0 63=cc"],
            2: ["put h0 61 aa", "rotate h0", "drain", "put h0 61 ab", "ingest h0 61=bb 64=dd", "del h0 64"],
            3: ["batch - h0:p:61:aa h1:p:71:aa", "ingest h0 61=bb", "clear h1", "ingest h1 72=cc"]}[variant]
    L = ["open plain jcomp=none", "ks h0 alpha", "ks h1 beta", "ks h2 gamma"] + body + \
        ["put h0 62 bb", "put h1 73 dd", "bigfill h2 66 1024 t0", "rotate h2", "drain", "info", "scan - h0 fwd all", "scan - h1 fwd all",
         "get - h0 61", "reopen", "ks h0 alpha", "ks h1 beta", "scan - h0 fwd all", "scan - h1 fwd all", "get - h0 61",
         "reopen", "ks h0 alpha", "ks h1 beta", "scan - h0 fwd all", "scan - h1 fwd all", "get - h0 61"]
    prog = "\n".join(L) + "\n"
    o, raw, rc = run_fjv(prog, timeout=300)
    n = len(L)
    before = (o.get(n - 14), o.get(n - 13), o.get(n - 12))
    after = (o.get(n - 8), o.get(n - 7), o.get(n - 6))
    after2 = (o.get(n - 2), o.get(n - 1), o.get(n))
    if "journals=2" not in (o.get(n - 15) or ""):
        return None
    if before[0] is None or after != before or after2 != before:
        return ("content with a sealed journal: before close (alpha, beta, get 61) = %s, after reopen %s, after second reopen %s"
                % (before, after, after2), prog)
    v = before[2]
    if v and v.startswith("some ") and ("61=" + v[5:]) not in before[0]:
        return ("point read of 61 (%s) disagrees with the scan (%s)" % (v, before[0]), prog)
    return None


def run(rep, tier, seed, build):
    from common import pmap, proof_audit, pmap_confirm
    obl, dis, pproblems = proof_audit("props/C04.v", THEOREMS, build["coq"])
    sj = [x for x in pmap(sealed_journal_history, [seed % 4, (seed + 1) % 4] if tier == "quick" else [0, 1, 2, 3], workers=4) if x]
    for msg, prog in sj[:1]:
        rep.violation("# C04: %s\n%s" % (msg, prog))
    n, nops = (240, 40) if tier == "quick" else (5000, 100)
    from seqprop import corpus
    progs = corpus("C04") + programs(seed, n, nops)
    res = run_seq(rep, progs)
    races = [(m, w, pre) for m in ("plain", "sw", "occ") for w in ("put", "put_same", "del", "batch", "tx", "other")
             for pre in ("mem", "flushed") if not (m == "plain" and w == "tx")]
    if tier == "quick":
        races = [x for i, x in enumerate(races) if (i + seed) % 3 == 0 or x[:2] == ("plain", "put")]
    # the same with the writer held between its journal append and its memtable insert
    held = [(m, w, pre, True) for m in ("plain", "occ") for w in ("put_same", "put", "del", "batch", "tx")
            for pre in ("mem", "flushed") if not (m == "plain" and w == "tx")]
    races += held if tier != "quick" else [x for i, x in enumerate(held) if x[1] == "put_same" or (i + seed) % 4 == 0]
    rr, unconf = pmap_confirm(ingest_race, races, lambda x: bool(x["problems"]), workers=8)
    for x in [x for x in rr if x["problems"]][:2]:
        rep.violation("# C04: writer racing with a bulk ingestion that holds the journal lock: %s\n%s" % (x["problems"][0], x["prog"]))
    # the property itself, judged without the model: content before close = content after reopen
    from common import known_switch
    mon, known_hits = 0, 0
    f17 = known_switch("C04", "remove_verdict_reopen")
    for ev in res["results"]:
        for (ln, before, after) in reopen_identity(ev["prog"], ev["impl"]):
            mon += 1
            pb, pa = parse_dump(before), parse_dump(after)
            # known finding E17 (second face): keys that were deleted come back — and only that — while the implementation
            # agrees with the faithful model on the whole program (the model's replay has the same non-monotone watermark)
            only_resurrection = all(set(pb.get(n, {}).items()) <= set(pa.get(n, {}).items()) for n in set(pb) | set(pa)) and \
                set(pb) == set(pa)
            if f17 and only_resurrection and ev["d_corr"] is None and ("!" in ev["prog"] or "filters=" in ev["prog"]):
                known_hits += 1
                rep.known_finding("remove_verdict_reopen (%s): %s" % (f17["id"], f17["what"]))
            elif len(rep.violations) < 3:
                rep.violation("# C04: the content changes across the reopen at line %d\n# before close: %s\n# after reopen:  %s\n%s"
                              % (ln, before[:600], after[:600], ev["prog"]))
    st = res["stats"]
    rep.coverage = dict(reopen_identity_mismatches=mon, known_finding_hits=known_hits, programs=st["programs"], disagreements_checked=st["disagreements_checked"],
                        evaluations=st["ops"], distinct_nontrivial=res["distinct"],
                        rule="generated histories with 1-5 reopen cycles (a tenth of them with 66 MiB fills that seal the journal: eviction "
                             "watermarks, sealed-journal recovery, `journals` compared with the model), ingestion into empty and non-empty keyspaces over "
                             "existing keys, clear, flush/compaction steps; dump before close and after reopen, full probe "
                             "(scans + point reads) at the end; compared between implementation, model(as_is), oracle(ideal); "
                             "non-trivial = >= 4 distinct operation kinds, distinct by operation-kind sequence",
                        samples=[progs[0].splitlines()[:14]], op_histogram=dict(res["ophist"]),
                        known_finding_programs=st["known_finding_programs"], ingest_race_schedules=len(rr), unconfirmed_alarms=unconf, sealed_journal_histories=2 if tier == "quick" else 4,
                        correspondence_failures=st.get("correspondence_failures", 0),
                        partial_theorems=THEOREMS, partial_theorems_discharged=dis, partial_theorem_problems=pproblems)
    if pproblems and not rep.violations:
        rep.violation("# C04: partial theorems no longer check\n" + "\n".join(pproblems) + "\n", suffix="no-failing-input-found")


def replay(rep, path, build):
    prog = "".join(l for l in open(path) if not l.startswith("#"))
    if "pausepoint" in prog:
        from common import run_fjv
        o, raw, rc = run_fjv(prog, env_extra={"FJV_SYNC_TIMEOUT_MS": "5000"}, timeout=60)
        n = len(prog.splitlines())
        if not (o.get(n) and o.get(n) == o.get(n - 2) == o.get(n - 4)):
            rep.violation("# C04: content before close %s, after reopen %s, after second reopen %s\n%s"
                          % (o.get(n - 4), o.get(n - 2), o.get(n), prog))
        rep.coverage = dict(programs=1, disagreements_checked=len(rep.violations), samples=[prog.splitlines()[:10]])
        return
    run_seq(rep, [prog], shrink=False)
    rep.coverage = dict(programs=1, disagreements_checked=len(rep.violations), samples=[prog.splitlines()[:10]])
