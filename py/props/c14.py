"""C14 — concurrent single operations are linearizable and no write is lost.
Real threads (harness `thread … &`), tiny memtables and real worker threads so that rotation, flush and compaction
continuously overlap foreground operations; call/return timestamps per operation; per-key Wing–Gong
linearizability check (registers compose), final content and content after reopen."""
import os, random, re, shutil, sys
from common import run_fjv, workdir, pmap

LEVEL = "exploration"
COQ_TARGETS = ("props/C14.vo",)
THEOREMS = ["C14_apply_order_is_seqno_order_partial", "C14_nothing_applied_is_lost_partial", "C14_journal_order_is_seqno_order"]
sys.setrecursionlimit(100000)
KEYS = ["61", "62", "63", "64"]


def make_run(seed, tier):
    r = random.Random(seed)
    nthreads = r.choice([2, 3, 4, 6, 8])
    per = r.choice([100, 150, 250]) if tier == "quick" else r.choice([300, 600, 1500])
    workers = r.choice([1, 2, 4])
    mt = r.choice([600, 1500, 4000])
    L = ["open plain workers=%d" % workers, "ks h0 alpha mt=%d" % mt, "ks h1 beta mt=%d" % mt]
    cnt = 0
    plan = []
    for t in range(nthreads):
        for i in range(per):
            plan.append(t)
    r.shuffle(plan)
    seq = {t: 0 for t in range(nthreads)}
    for t in plan:
        seq[t] += 1
        h = "h%d" % r.randrange(2)
        k = r.choice(KEYS)
        c = r.random()
        if c < 0.45:
            v = "%02x%04x" % (t, seq[t]) + "ee" * r.choice([0, 0, 20, 60])
            L.append("thread w%d put %s %s %s &" % (t, h, k, v))
        elif c < 0.55:
            L.append("thread w%d del %s %s &" % (t, h, k))
        elif c < 0.62:
            k2 = r.choice(KEYS)
            v = "%02x%04x" % (t, seq[t])
            L.append("thread w%d batch - %s:p:%s:%s %s:p:%s:%s &" % (t, h, k, v + "aa", h, k2, v + "bb"))
        else:
            L.append("thread w%d get - %s %s &" % (t, h, k))
    return dict(prog="\n".join(L) + "\n", threads=nthreads, per=per, workers=workers, mt=mt)


class Op:
    __slots__ = ("call", "ret", "kind", "val", "line")

    def __init__(self, call, ret, kind, val, line):
        self.call, self.ret, self.kind, self.val, self.line = call, ret, kind, val, line


def linearizable(ops, init=None):
    """Wing–Gong search for a single register: kind 'w' writes val (None = delete), kind 'r' observed val."""
    ops = sorted(ops, key=lambda o: o.call)
    n = len(ops)
    memo = set()

    def rec(done, cur):
        if len(done) == n:
            return True
        key = (done, cur)
        if key in memo:
            return False
        # candidates: not yet linearized ops whose call precedes the earliest return among the unlinearized
        rest = [i for i in range(n) if i not in done]
        minret = min(ops[i].ret for i in rest)
        for i in rest:
            o = ops[i]
            if o.call > minret:
                break
            if o.kind == "w":
                if rec(done | {i}, o.val):
                    return True
            elif o.val == cur:
                if rec(done | {i}, cur):
                    return True
        memo.add(key)
        return False
    return rec(frozenset(), init)


def judge(args):
    seed, tier = args
    rn = make_run(seed, tier)
    wd = workdir()
    try:
        db = os.path.join(wd, "db")
        # a synchronous no-op on every thread is a barrier (each thread runs its queue in order): the final read is taken
        # after every asynchronous operation has returned, however slow the machine is
        tail = "".join("thread w%d has - h0 00\n" % t for t in range(rn["threads"])) + "dump\n"
        o, raw, rc = run_fjv(rn["prog"] + tail, dbdir=db, env_extra={"FJV_TIMING": "1", "FJV_SYNC_TIMEOUT_MS": "120000"}, timeout=600)
        lines = rn["prog"].splitlines()
        hist = {}
        problems = []
        final = {}
        nops = 0
        for i, l in enumerate(lines, 1):
            t = l.split()
            if t[0] != "thread":
                continue
            res = o.get(i)
            if res is None:
                problems.append("operation at line %d never returned (stall?): %s" % (i, l))
                break
            m = re.match(r"^(.*) @(\d+)-(\d+)$", res)
            if not m:
                problems.append("line %d: no timing / unexpected result %r" % (i, res))
                break
            body, c, rt = m.group(1), int(m.group(2)), int(m.group(3))
            nops += 1
            op = t[2]
            if body.startswith(("err", "panic")):
                problems.append("line %d (%s) failed: %s" % (i, l, body))
                break
            if op == "put":
                hist.setdefault((t[3], t[4]), []).append(Op(c, rt, "w", t[5], i))
            elif op == "del":
                hist.setdefault((t[3], t[4]), []).append(Op(c, rt, "w", None, i))
            elif op == "get":
                v = None if body == "none" else body.split(" ", 1)[1]
                hist.setdefault((t[4], t[5]), []).append(Op(c, rt, "r", v, i))
            elif op == "batch":
                for it in t[4:-1] if t[-1] == "&" else t[4:]:
                    f = it.split(":")
                    hist.setdefault((f[0], f[2]), []).append(Op(c, rt, "w", f[3], i))
        if not problems:
            # final content as one more read per key, after everything
            dump = o.get(len(lines) + rn["threads"] + 1) or ""
            if "{" not in dump:
                problems.append("the final dump did not run (timing): %r" % (dump,))
            content = {}
            for part in dump.split(";"):
                if "{" in part:
                    name, body = part[:-1].split("{", 1)
                    h = {"alpha": "h0", "beta": "h1"}.get(name)
                    for kv in body.split(","):
                        if kv:
                            k, v = kv.split("=")
                            content[(h, k)] = v
            big = 1 << 62
            e4_hits = []
            for key, ops in hist.items():
                ops = ops + [Op(big, big + 1, "r", content.get(key), 0)]
                if len(ops) > 400:
                    continue
                if not linearizable(ops):
                    # known finding E4: a version upgrade (flush / compaction on a worker thread) bumps the visible seqno past a
                    # batch that is still applying its items, so a concurrent read can see that batch half applied (and, when
                    # the batch writes the key twice, momentarily neither version).  Reads that overlap a multi-item batch on
                    # this key are exactly those: if the history without them is linearizable, this is E4 and nothing else.
                    batch_iv = [(o_.call, o_.ret) for o_ in ops if o_.kind == "w" and o_.line and lines[o_.line - 1].split()[2] == "batch"]
                    calm = [o_ for o_ in ops if not (o_.kind == "r" and any(o_.call <= b_ret and b_call <= o_.ret for (b_call, b_ret) in batch_iv))]
                    if rn["workers"] >= 1 and len(calm) < len(ops) and linearizable(calm):
                        e4_hits.append(key)
                        continue
                    # shortest non-linearizable prefix (by call time), shown with call/return times
                    so = sorted(ops, key=lambda o_: o_.call)
                    win = so
                    for n_ in range(1, len(so) + 1):
                        if not linearizable(so[:n_]):
                            win = so[max(0, n_ - 10):n_]
                            break
                    problems.append("history of key %s/%s is not linearizable (%d operations incl. the final read %r); last operations of the "
                                    "shortest non-linearizable prefix (call-return kind value line): %s"
                                    % (key[0], key[1], len(ops), content.get(key),
                                       "; ".join("%d-%d %s %s L%d" % (o_.call, o_.ret, o_.kind, (o_.val or "None")[:8], o_.line) for o_ in win)))
                    break
            # nothing acknowledged may be lost by a restart
            o2, _, _ = run_fjv("open plain\ndump\n", dbdir=db)
            if not problems and o2.get(2) != dump:
                problems.append("content after reopen differs from the final content: %s vs %s" % (o2.get(2), dump))
        return dict(run=rn, problems=problems, ops=nops, keys=len(hist), e4=len(locals().get("e4_hits", [])))
    finally:
        shutil.rmtree(wd, ignore_errors=True)


def held_writer(args):
    """deterministic window: writer w1 is held inside its write (at a pause point), a second writer to the same key, a
    memtable rotation and a flush are started meanwhile; afterwards the value of the key must be one of the two written
    values and must not change without a write: not by rotation + flush + major compaction, not by reopen"""
    site, w1kind, w2kind = args
    w1 = {"put": "put h0 61 aa", "del": "del h0 61", "batch": "batch - h0:p:61:aa h1:p:71:aa"}[w1kind]
    w2 = {"put": "put h0 61 bb", "del": "del h0 61", "batch": "batch - h0:p:61:bb h1:p:71:bb"}[w2kind]
    L = ["open plain", "ks h0 alpha", "ks h1 beta", "put h0 61 00", "put h0 62 00",
         "pausepoint %s 1 hold" % site, "thread w1 %s &" % w1, "waitpause %s" % site, "thread w2 %s &" % w2, "sleep 150",
         "thread r rotate h0 &", "sleep 150", "drain", "release %s" % site,
         # barriers: each thread answers a synchronous read only after its asynchronous operation has returned
         "thread w1 has - h1 00", "thread w2 has - h1 00", "thread r has - h1 00", "drain"]
    i_r1 = len(L) + 1
    L += ["get - h0 61", "get - h0 61", "rotate h0", "drain", "major h0"]
    i_r2 = len(L) + 1
    L += ["get - h0 61", "reopen", "ks h0 alpha", "get - h0 61"]
    prog = "\n".join(L) + "\n"
    o, raw, rc = run_fjv(prog, env_extra={"FJV_SYNC_TIMEOUT_MS": "20000"}, timeout=240)
    n = len(L)
    r1, r1b, r2, r3 = o.get(i_r1), o.get(i_r1 + 1), o.get(i_r2), o.get(n)
    vals = set()
    for k, w in ((w1kind, "aa"), (w2kind, "bb")):
        vals.add("none" if k == "del" else "some " + w)
    problems = []
    if any(o.get(i) is None for i in (7, 9, 11)):
        problems.append("an operation never returned: w1=%s w2=%s rotate=%s" % (o.get(7), o.get(9), o.get(11)))
    elif not (r1 == r1b == r2 == r3):
        problems.append("the value of key 61 changes without any write: after both writers returned %s, again %s, after "
                        "rotate+flush+major compaction %s, after reopen %s" % (r1, r1b, r2, r3))
    elif r1 not in vals:
        problems.append("key 61 reads %s, which neither writer wrote (%s)" % (r1, sorted(vals)))
    return dict(prog=prog, problems=problems, site=site)


def single_worker_liveness(args):
    """writers must keep making progress with exactly ONE worker thread: 48 rounds of writes to the same few keys, each
    followed by a memtable rotation (every flushed table overlaps the others = one more L0 run), climb to the write-halt
    threshold of 30 runs within the run unless the single worker also compacts"""
    mode, rounds = args
    L = ["open %s workers=1" % mode, "ks h0 alpha"]
    puts = []
    for r_ in range(rounds):
        for i in range(6):
            n = r_ * 6 + i
            L.append("thread w%d put h0 %02x %04x%s &" % (n % 3, 0x61 + n % 5, n, "ee" * 24))
            puts.append(len(L))
        L += ["sleep 30", "rotate h0", "sleep 60"]
    L += ["sleep 500", "len - h0"]
    prog = "\n".join(L) + "\n"
    o, raw, rc = run_fjv(prog, env_extra={"FJV_SYNC_TIMEOUT_MS": "30000"}, timeout=200)
    done = sum(1 for i in puts if (o.get(i) or "").startswith("ok"))
    if done < len(puts) or o.get(len(L)) != "5":
        return ("with one worker thread only %d of %d writes returned (len = %s): writers stall" % (done, len(puts), o.get(len(L))), prog)
    return None


def halt_liveness(kind):
    """the write halt on >= 4 sealed memtables must end once the worker gets to flush them: the single worker is busy with
    another keyspace's flush (held before it) while four rotations pile up sealed memtables in alpha; a writer (insert /
    remove / batch) then runs into the halt; the worker is released.  The writer must return — it may hold no lock the flush
    needs while it waits."""
    w = {"put": "put h0 61 ff", "del": "del h0 61", "delw": "delw h0 61", "batch": "batch - h0:p:61:ff h0:d:62"}[kind]
    L = ["open plain workers=1", "ks h0 alpha", "ks h1 beta", "put h1 71 01", "pausepoint worker.flush.before 1 hold", "rotate h1",
         "waitpause worker.flush.before"]
    for i in range(4):
        L += ["put h0 61 %02x" % (i + 1), "put h0 62 %02x" % (i + 1), "rotate h0"]
    L += ["seqnos h0", "thread w %s &" % w, "sleep 400", "pausepoint worker.flush.before 1 off", "release worker.flush.before",
          "thread w has - h0 00", "get - h0 61"]
    prog = "\n".join(L) + "\n"
    o, raw, rc = run_fjv(prog, env_extra={"FJV_SYNC_TIMEOUT_MS": "20000"}, timeout=120)
    n = len(L)
    if "sealed=4" not in (o.get(n - 6) or ""):
        return None                        # the four sealed memtables did not pile up: nothing to judge
    want = {"put": "some ff", "del": "none", "delw": "none", "batch": "some ff"}[kind]
    if o.get(n) != want or not (o.get(n - 1) or "").startswith(("true", "false")):
        return ("write halt (4 sealed memtables, single worker busy elsewhere): `%s` did not return after the worker was released "
                "(barrier: %s, final read: %s, expected %s)" % (w, o.get(n - 1), o.get(n), want), prog)
    return None


HELD = [(s_, a, b) for s_, kinds in (("ks.after_journal", ("put", "del")), ("ks.before_publish", ("put", "del")),
                                      ("batch.after_seqno", ("batch",)), ("batch.after_item", ("batch",)),
                                      ("batch.before_publish", ("batch",)))
        for a in kinds for b in ("put", "del", "batch")]


def run(rep, tier, seed, build):
    from common import proof_audit
    obl, dis, pproblems = proof_audit("props/C14.v", THEOREMS, build["coq"])
    from common import pmap_confirm
    hw, unconf = pmap_confirm(held_writer, HELD if tier != "quick" else [x for i, x in enumerate(HELD) if (i + seed) % 2 == 0 or x[0] == "ks.after_journal"],
                              lambda x: bool(x["problems"]), workers=6)
    for x in [x for x in hw if x["problems"]][:2]:
        rep.violation("# C14: writer held at %s while a second writer, a rotation and a flush run: %s\n%s" % (x["site"], x["problems"][0], x["prog"]))
    sw, unconf3 = pmap_confirm(single_worker_liveness, [("plain", 48)] if tier == "quick" else [("plain", 48), ("sw", 60), ("occ", 80)],
                               lambda x: x is not None, workers=3)
    sw = [x for x in sw if x]
    for msg, prog in sw[:1]:
        rep.violation("# C14: %s\n%s" % (msg, "\n".join(prog.splitlines()[:12]) + "\n... (rounds of 6 asynchronous puts on 3 threads + rotate)\n"))
    hl, unconf4 = pmap_confirm(halt_liveness, ["put", "del", "delw", "batch"], lambda x: x is not None, workers=4)
    for msg, prog in [x for x in hl if x][:1]:
        rep.violation("# C14: %s\n%s" % (msg, prog))
    unconf3 += unconf4
    n = 24 if tier == "quick" else 300
    # free-running runs: a stalled operation (time limit) is confirmed by a second, patient run; a non-linearizable history is
    # evidence by itself, but the confirming run costs nothing when it shows up again
    res, unconf2 = pmap_confirm(judge, [(seed * 2147483647 + i, tier) for i in range(n)],
                                lambda x: bool(x["problems"]) and ("never returned" in x["problems"][0] or "timing" in x["problems"][0]), workers=4)
    bad = [x for x in res if x["problems"]]
    if any(x.get("e4") for x in res):
        from common import known_switch
        f4 = known_switch("C14", "d_visible_bump")
        if f4:
            rep.known_finding("d_visible_bump (%s): a read overlapping a multi-item batch saw it half applied; %s" % (f4["id"], f4["what"][:200]))
        else:
            rep.violation("# C14: reads overlapping a multi-item batch see it half applied (%d key histories)\n" % sum(x["e4"] for x in res))
    for x in bad[:3]:
        rep.violation("# C14: %s\n# run: %d threads x %d ops, %d workers, memtable %d bytes\n%s"
                      % (x["problems"][0], x["run"]["threads"], x["run"]["per"], x["run"]["workers"], x["run"]["mt"], x["run"]["prog"]))
    rep.coverage = dict(evaluations=sum(x["ops"] for x in res), distinct_nontrivial=len({(x["run"]["threads"], x["run"]["per"], x["run"]["workers"], x["run"]["mt"]) for x in res}),
                        rule="runs of 2-8 real threads issuing put/del/get/2-item batches on 4 keys x 2 keyspaces through cloned handles, "
                             "memtable limit 600-4000 bytes and 1-4 worker threads (continuous rotation/flush/compaction), every operation "
                             "timestamped at call and return; per-key Wing-Gong linearizability search including a final read of the "
                             "content; content after reopen must equal the final content; distinct by (threads, ops, workers, memtable)",
                        samples=[res[0]["run"]["prog"].splitlines()[:8]], held_writer_schedules=len(hw), halt_liveness_schedules=4, unconfirmed_alarms=unconf + unconf2 + unconf3, runs=n, threads_max=max(x["run"]["threads"] for x in res),
                        disagreements_checked=len(bad), partial_theorems=THEOREMS, partial_theorems_discharged=dis,
                        partial_theorem_problems=pproblems)
    if pproblems and not rep.violations:
        rep.violation("# C14: partial theorems no longer check\n" + "\n".join(pproblems) + "\n", suffix="no-failing-input-found")
    rep.assumptions = ["thread schedules are sampled by the OS scheduler, not enumerated", "timestamps are taken in the harness around each API call"]


def replay(rep, path, build):
    run(rep, "quick", rep.seed, build)
