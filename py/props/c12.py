"""C12 — keyspaces are isolated, and a deleted keyspace never comes back."""
import os, re, shutil
from gen import Gen, NAMES, KEYS
from seqdiff import run_seq
from seqprop import coverage, replay_file, corpus, audit

LEVEL = "proof"
COQ_TARGETS = ("props/C12.vo",)
THEOREMS = ["C12_frame", "C12_new_keyspace_empty", "C12_delete_changes_no_read", "C12_recreated_name_is_a_new_empty_keyspace",
            "C12_invariants_with_deletion_and_reopen", "C12_deleted_keyspace_gone_after_reopen",
            "C12_records_of_deleted_keyspace_ignored", "C12_recovered_keyspaces_are_the_registered_directories", "C12_frame_partial", "C12_deleted_refused_partial", "C12_recovered_ids_fresh_partial", "C12_new_keyspace_takes_next_id_partial"]
RULE = ("histories over three keyspace names with create / write / delete / re-create, old handles kept and used after "
        "deletion, handles dropped, reopen at random positions, journal records of deleted keyspaces still in the active "
        "journal; after each step name listing, keyspace_exists and full dumps of every keyspace; compared between "
        "implementation, model and oracle")


class G12(Gen):
    def __init__(self, seed, mode, sealing=0):
        super().__init__(seed, mode=mode, nks=2, sealing=sealing,
                         weights=dict(reopen=1.5, snap=0, it=0, tx=0, txop=0, gc=0, ks=0, delks=0, ingest=1, clear=0.5,
                                      major=0.5, rotate=1.5, step=1.5, put=8, delete=2, batch=2, get=2, scan=2, misc=0.5,
                                      reg=5))
        self.bound = {}        # handle index -> name index
        self.nh = 0

    def open_ks(self, i):
        h = self.nh
        self.nh += 1
        self.emit("ks h%d %s%s" % (h, NAMES[i], " mt=400000000" if self.sealing else ""))
        self.bound[h] = i
        self.handles.append(h)

    def op_reg(self):
        r = self.r
        c = r.random()
        if c < 0.35:
            self.open_ks(r.randrange(3))
        elif c < 0.6 and self.handles:
            h = r.choice(self.handles)
            self.emit("delks h%d" % h)
        elif c < 0.75 and len(self.handles) > 1:
            h = r.choice(self.handles)
            self.handles.remove(h)
            self.emit("drop h%d" % h)
        elif c < 0.9:
            self.emit("names")
            self.emit("exists %s" % r.choice(NAMES))
        else:
            self.emit("dump")

    def op_reopen(self):
        self.rot = 0
        self.emit("dump")
        self.emit("names")
        self.emit("reopen")
        self.handles = []
        self.emit("names")
        self.emit("dump")
        if self.sealing:
            self.emit("journals")
        self.emit("drain")           # recovery queues its tasks in hash-map order / by L0 runs: go on only after they ran
        if self.sealing:
            self.emit("journals")
        for i in self.r.sample(range(3), self.r.randrange(1, 4)):
            self.open_ks(i)


def programs(seed, n, nops):
    out = []
    for i in range(n):
        g = G12(seed * 100183 + i, ["plain", "plain", "sw", "occ"][i % 4], sealing=(2 if i >= n - max(12, n // 12) else 0))
        g.emit("open " + g.mode + (" jcomp=none" if g.sealing else ""))
        g.open_ks(0)
        g.open_ks(1)
        for _ in range(nops):
            g.step()
        g.op_reopen()
        g.emit("dump")
        out.append("\n".join(g.lines) + "\n")
    return out


def sealed_journal_scenarios(tier):
    """records of a deleted keyspace survive only in a SEALED journal (needs real 64 MB of traffic): deleting the
    keyspace with the highest id, reopening, creating a new keyspace and reopening again must not hand the old records to
    the new keyspace; a still-existing lagging keyspace must keep its data"""
    from common import run_fjv
    out = []
    for variant in (0, 1) if tier == "quick" else (0, 1, 2):
        L = ["open plain jcomp=none", "ks h0 alpha", "ks h1 beta", "put h1 6b 01", "put h0 6a 00"]
        if variant == 2:
            L += ["ks h5 delta", "put h5 6d 05"]
        L += ["bigfill h0 66 1024 t0", "rotate h0", "drain", "info", "delks h1", "drop h1", "reopen", "names",
              "ks h2 gamma", "put h2 6c 02"]
        if variant == 1:
            L += ["clear h2", "put h2 6c 03"]
        L += ["reopen", "ks h3 gamma", "scan - h3 fwd all", "ks h4 alpha", "get - h4 6a", "names"]
        prog = "\n".join(L) + "\n"
        o, raw, rc = run_fjv(prog, timeout=300)
        n = len(L)
        want_scan = "6c=03" if variant == 1 else "6c=02"
        want_names = "alpha,delta,gamma" if variant == 2 else "alpha,gamma"
        if o.get(n - 3) != want_scan or o.get(n - 1) != "some 00" or o.get(n) != want_names:
            out.append(("after deleting the keyspace whose records live in a sealed journal, reopen, create, reopen: new keyspace "
                        "reads %s (expected %s), alpha 6a = %s, names %s" % (o.get(n - 3), want_scan, o.get(n - 1), o.get(n)), prog))
    # keyspace creations / deletions are the LAST operations before the close (they touch only the meta tree, never the journal)
    # while a sealed journal still holds unflushed data of another keyspace: after the reopen the counters must be above the
    # meta tree's rows too, otherwise the next keyspace's rows are older than the tombstones and it vanishes at the reopen after
    L = ["open plain jcomp=none", "ks h0 alpha", "ks h1 beta", "ks h5 tmpx", "put h1 6b 01", "put h0 6a 00",
         "bigfill h0 66 1024 t0", "rotate h0", "drain", "info"]
    for i in (6, 7, 8):
        L += ["ks h%d scratch%d" % (i, i), "delks h%d" % i, "drop h%d" % i]
    L += ["delks h5", "drop h5", "reopen", "ks h2 gamma", "put h2 6c 02", "reopen", "ks h3 gamma", "scan - h3 fwd all",
          "ks h4 alpha", "get - h4 6a", "ks h9 beta", "get - h9 6b", "names"]
    prog = "\n".join(L) + "\n"
    o, raw, rc = run_fjv(prog, timeout=300)
    n = len(L)
    got = (o.get(n - 5), o.get(n - 3), o.get(n - 1), o.get(n))
    if o.get(10) and "journals=2" in o.get(10) and got != ("6c=02", "some 00", "some 01", "alpha,beta,gamma"):
        out.append(("keyspaces created and deleted right before the close while a sealed journal holds another keyspace's unflushed "
                    "data; reopen, create 'gamma', write, reopen: gamma reads %s (expected 6c=02), alpha 6a = %s, beta 6b = %s, names %s"
                    % got, prog))
    return out


def run(rep, tier, seed, build):
    n, nops = (300, 45) if tier == "quick" else (8000, 80)
    audit(rep, "props/C12.v", THEOREMS, build)
    progs = corpus("C12") + programs(seed, n, nops)
    res = run_seq(rep, progs)
    sj = sealed_journal_scenarios(tier)
    # deleting one keyspace must not cost another keyspace its data (the journal both share is reclaimed too early): the C10
    # scenario, judged here for the isolation clause
    from props.c10 import deleted_keyspace_eviction, DKE
    from common import pmap
    sj += [x for x in pmap(deleted_keyspace_eviction, DKE[:2] if tier == "quick" else DKE, workers=4) if x]
    for msg, prog in sj[:2]:
        rep.violation("# C12: %s\n%s" % (msg, prog))
    coverage(rep, res, progs, RULE, dict(sealed_journal_scenarios=3 if tier == "quick" else 4))


def replay(rep, path, build):
    replay_file(rep, path)
