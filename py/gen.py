"""Program generators for the shared program language (see harness/SPEC.md).
Every random choice derives from one random.Random(seed) so a program replays exactly."""
import random

KEYS = ["61", "62", "63", "6161", "6162", "61ff", "62ff", "ff", "ffff", "00", "6100", "7a"]
NAMES = ["alpha", "beta", "gamma"]


def val(r, big=False):
    if big and r.random() < 0.5:
        n = r.choice([4095, 4096, 4097, 5000])
        if r.random() < 0.5:
            return ("%02x" % r.randrange(256)) * n                      # highly compressible
        return "".join("%02x" % r.randrange(256) for _ in range(n))     # incompressible
    n = r.choice([0, 1, 1, 2, 3])
    return "".join("%02x" % r.randrange(256) for _ in range(n)) or "-"


def key(r):
    return r.choice(KEYS)


def rangespec(r):
    c = r.random()
    if c < 0.35:
        return "all"
    if c < 0.6:
        return "prefix:" + r.choice(["61", "62", "ff", "6161", "-", "ffff", "7a"])
    lo, hi = sorted([key(r), key(r)], key=lambda h: bytes.fromhex(h))
    blo = r.choice(["[" + lo, "(" + lo, "*"])
    bhi = r.choice(["[" + hi, "(" + hi, "*"])
    if blo[0] == "(" and bhi[0] == "(" and lo == hi:
        bhi = "[" + hi                                                   # BTreeSet::range panics on (x,x): not a valid range
    return "range:%s:%s" % (blo, bhi)


def direction(r):
    return r.choice(["fwd", "fwd", "rev", "zip:fb", "zip:bf", "zip:ffb", "zip:bbf"])


class Gen:
    """Stateful generator: tracks which handles / views exist so that most operations are valid."""

    def __init__(self, seed, mode="plain", nks=2, weights=None, filters=None, big=False, maxviews=4, sealing=0, configs=None):
        self.r = random.Random(seed)
        self.mode = mode
        self.nks = nks
        self.big = big
        self.lines = []
        self.handles = []
        self.snaps = []
        self.iters = []
        self.txs = []
        self.nsnap = self.nit = self.ntx = 0
        self.maxviews = maxviews
        self.filters = filters
        # sealing = n > 0: up to n `bigfill`s of 66 MiB push the active journal over its 64 MB rotation threshold, so that
        # sealed journals, eviction watermarks and sealed-journal recovery take part in the program (memtable limit raised
        # so that only explicit rotations happen; journal compression off so that journal sizes are what the model computes)
        self.sealing = sealing
        # configs: keyspace configurations to draw from, one per keyspace name (the property quantifies over standard and
        # key-value separated keyspaces, leveled and FIFO strategies where FIFO does not evict); the model takes no
        # configuration: every configuration must behave as the same ordered map
        self.kscfg = [(self.r.choice(configs) if configs else "") for _ in range(len(NAMES))]
        self.fills = 0
        self.w = dict(put=10, delete=4, batch=3, clear=1, ingest=2, get=6, scan=5, misc=3,
                      rotate=2, step=3, major=1, reopen=1, snap=0, it=0, tx=0, txop=0, gc=0, ks=0.5, delks=0,
                      bigfill=(3 if sealing else 0))
        if weights:
            self.w.update(weights)

    def emit(self, s):
        self.lines.append(s)

    def cap(self, t):
        """The model's compaction-strategy step is a no-op (with few small tables the leveled strategy only moves tables), which
        is true only while a keyspace has fewer than 4 L0 tables: before an operation that adds t tables, if that would make more
        than 3 since the last major compaction, drain the queue and compact everything explicitly (the model follows `major`)."""
        if getattr(self, "l0", 0) + t > 3:
            self.emit("drain")
            for h in self.handles:
                self.emit("major h%d" % h)
            self.l0 = 0
            self.rot = 0
        self.l0 = getattr(self, "l0", 0) + t

    def header(self):
        h = "open %s" % self.mode
        if self.sealing:
            h += " jcomp=none"
        if self.filters:
            h += " filters=" + ";".join("%s:%s" % kv for kv in self.filters.items())
        self.emit(h)
        for i in range(self.nks):
            self.open_ks(i)

    def open_ks(self, i):
        self.emit("ks h%d %s%s%s" % (i, NAMES[i], " mt=400000000" if self.sealing else "",
                                     (" " + self.kscfg[i]) if self.kscfg[i] else ""))
        if i not in self.handles:
            self.handles.append(i)

    def h(self):
        return "h%d" % self.r.choice(self.handles)

    def view(self):
        r = self.r
        cands = ["-"]
        cands += self.snaps * 2
        cands += self.txs * 2
        return r.choice(cands)

    def probe(self, view="-"):
        """full observation of every keyspace through a view"""
        for i in self.handles:
            self.emit("scan %s h%d fwd all" % (view, i))
            for k in self.r.sample(KEYS, 3):
                self.emit("get %s h%d %s" % (view, i, k))

    def drop_views(self):
        self.snaps, self.iters, self.txs = [], [], []

    def step(self):
        r = self.r
        kinds = [k for k, w in self.w.items() if w > 0]
        k = r.choices(kinds, weights=[self.w[x] for x in kinds])[0]
        getattr(self, "op_" + k)()

    # ---- operation kinds
    def op_put(self):
        self.emit("put %s %s %s" % (self.h(), key(self.r), val(self.r, self.big)))

    def op_bigfill(self):
        # never into a filtered keyspace: a 66 MiB table makes the compaction strategy really merge (and apply the filter to
        # whatever it merges), which the model's strategy step does not follow (it applies filters at `major` only)
        cands = [i for i in self.handles if not (self.filters and NAMES[i] in self.filters)]
        if self.fills >= self.sealing or not cands:
            return self.op_put()
        self.cap(1)
        h = "h%d" % self.r.choice(cands)
        self.emit("bigfill %s 66 1024 t%d" % (h, self.fills))
        self.fills += 1
        # usually flush something right away: the worker's flush tick is what seals the journal
        if self.r.random() < 0.75:
            self.emit("rotate " + (h if self.r.random() < 0.7 else self.h()))
            self.emit("drain")
            self.emit("journals")
            self.rot = 0

    def op_delete(self):
        self.emit("del %s %s" % (self.h(), key(self.r)))

    def op_batch(self):
        r = self.r
        items = []
        for _ in range(r.randrange(1, 6)):
            if r.random() < 0.7:
                items.append("%s:p:%s:%s" % (self.h(), key(r), val(r)))
            else:
                items.append("%s:d:%s" % (self.h(), key(r)))
        self.emit("batch - " + " ".join(items))

    def op_clear(self):
        self.emit("clear " + self.h())

    def op_ingest(self):
        r = self.r
        ks = sorted(r.sample(KEYS, r.randrange(1, 5)), key=lambda h: bytes.fromhex(h))
        items = [(k + "=" + val(r)) if r.random() < 0.85 else k + "!" for k in ks]
        self.cap(2)          # the flushed memtable and the ingested table
        self.emit("ingest %s %s" % (self.h(), " ".join(items)))

    def op_get(self):
        r = self.r
        op = r.choice(["get", "get", "has", "size"])
        self.emit("%s %s %s %s" % (op, self.view(), self.h(), key(r)))

    def op_scan(self):
        r = self.r
        self.emit("scan %s %s %s %s" % (self.view(), self.h(), direction(r), rangespec(r)))

    def op_misc(self):
        r = self.r
        op = r.choice(["first", "last", "len", "empty"])
        self.emit("%s %s %s" % (op, self.view(), self.h()))

    def op_rotate(self):
        # 4 sealed memtables stall writers (by design); never queue more than 3 without draining
        self.cap(1)          # first: it may drain (and then resets the counter of sealed memtables)
        if getattr(self, "rot", 0) >= 3:
            self.emit("drain")
            self.rot = 0
        self.rot = getattr(self, "rot", 0) + 1
        self.emit("rotate " + self.h())

    def op_step(self):
        c = self.r.choice(["step", "step", "drain"])
        if c == "drain":
            self.rot = 0
        self.emit(c)
        if self.sealing:
            self.emit("journals")

    def op_major(self):
        self.emit("major " + self.h())
        if len(self.handles) <= 1:
            self.l0 = 0

    def op_gc(self):
        self.emit(self.r.choice(["gc", "pullup"]))

    def op_reopen(self):
        self.rot = 0
        self.emit("dump")
        self.emit("reopen")
        self.drop_views()
        hs = list(self.handles)
        self.handles = []
        for i in hs:
            self.open_ks(i)
        self.l0 = len(self.handles) if self.sealing else getattr(self, "l0", 0)   # recovery flushes rebuilt memtables: up to one table each
        # recovery queues its tasks in hash-map order, and a compaction only for keyspaces with L0 runs (the model, which has no
        # levels, queues one for every keyspace with tables): empty the queue on both sides before anything else, so that
        # later `step`s take the same task on both sides
        if self.sealing:
            self.emit("journals")    # sealed journals are registered again by recovery
        self.emit("drain")
        if self.sealing:
            self.emit("journals")
        self.rot = 0
        self.emit("dump")

    def op_ks(self):
        i = self.r.randrange(len(NAMES))
        self.open_ks(i)

    def op_snap(self):
        r = self.r
        if self.snaps and (len(self.snaps) >= self.maxviews or r.random() < 0.35):
            s = r.choice(self.snaps)
            self.snaps.remove(s)
            self.emit("snap %s close" % s)
        else:
            s = "s%d" % self.nsnap
            self.nsnap += 1
            self.snaps.append(s)
            self.emit("snap %s open" % s)

    def op_it(self):
        r = self.r
        if self.iters and (len(self.iters) >= self.maxviews or r.random() < 0.6):
            i = r.choice(self.iters)
            c = r.random()
            if c < 0.15:
                self.iters.remove(i)
                self.emit("it %s close" % i)
            else:
                self.emit("it %s %s" % (i, "next" if c < 0.65 else "back"))
        else:
            i = "i%d" % self.nit
            self.nit += 1
            self.iters.append(i)
            self.emit("it %s open %s %s %s" % (i, self.view(), self.h(), rangespec(r)))

    def op_tx(self):
        r = self.r
        if self.mode == "plain":
            return
        if self.txs and (len(self.txs) >= self.maxviews or r.random() < 0.45 or self.mode == "sw"):
            t = r.choice(self.txs)
            self.txs.remove(t)
            self.emit("tx %s %s" % (t, r.choice(["commit", "commit", "commit", "rollback", "drop"])))
        else:
            t = "t%d" % self.ntx
            self.ntx += 1
            self.txs.append(t)
            self.emit("tx %s begin" % t)

    def op_txop(self):
        r = self.r
        if not self.txs:
            return self.op_tx()
        t = r.choice(self.txs)
        c = r.random()
        if c < 0.3:
            self.emit("tx %s put %s %s %s" % (t, self.h(), key(r), val(r)))
        elif c < 0.4:
            self.emit("tx %s del %s %s" % (t, self.h(), key(r)))
        elif c < 0.47:
            self.emit("tx %s take %s %s" % (t, self.h(), key(r)))
        elif c < 0.55:
            f = r.choice(["none", "set:" + val(r), "app:" + val(r)])
            self.emit("tx %s %s %s %s %s" % (t, r.choice(["fu", "uf"]), self.h(), key(r), f))
        elif c < 0.75:
            self.emit("%s %s %s %s" % (r.choice(["get", "has", "size"]), t, self.h(), key(r)))
        elif c < 0.9:
            self.emit("scan %s %s %s %s" % (t, self.h(), direction(r), rangespec(r)))
        else:
            self.emit("%s %s %s" % (r.choice(["first", "last", "len", "empty"]), t, self.h()))

    def op_delks(self):
        r = self.r
        if r.random() < 0.5 and self.handles:
            self.emit("delks " + self.h())
        else:
            self.emit("drop " + self.h()) if len(self.handles) > 1 and r.random() < 0.3 else self.op_ks()

    def program(self, nops):
        self.header()
        for _ in range(nops):
            self.step()
        return "\n".join(self.lines) + "\n"
