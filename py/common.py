"""Shared machinery for the per-property checks: builds, running the
implementation harness (fjv) and the extracted model (fjm), proof audit,
classification against known findings, shrinking, evidence, reporting."""
import fcntl, hashlib, json, os, random, re, shutil, subprocess, sys, tempfile, time
from concurrent.futures import ThreadPoolExecutor

ROOT = os.path.dirname(os.path.dirname(os.path.abspath(__file__)))
FJV = os.path.join(ROOT, "harness/target/release/fjv")
FJM = os.path.join(ROOT, "ocaml/_build/fjm")
SHIM = os.path.join(ROOT, "shim/fjshim.so")
COQ = os.path.join(ROOT, "coq")
ENV = dict(os.environ, CARGO_NET_OFFLINE="true", FJV=FJV)
NPROC = 16

SWITCHES = ["d_replay_shadow", "d_clear_replay", "d_iter_max", "d_id_reuse",
            "d_double_close", "d_sizeof_untracked", "d_seqno_journal"]


def log(*a):
    print(*a, file=sys.stderr, flush=True)


# ---------------------------------------------------------------- builds
class BuildError(Exception):
    pass


def sh(cmd, cwd=None, timeout=3000, env=None):
    p = subprocess.run(cmd, shell=True, cwd=cwd, env=env or ENV, timeout=timeout,
                       stdout=subprocess.PIPE, stderr=subprocess.STDOUT, text=True)
    return p.returncode, p.stdout


def build_all(coq_targets=()):
    """(Re)build harness against the current /repo tree, the Coq targets, fjm and the shim.
    Serialised across concurrently running checks by a file lock."""
    for d in (".work", "ocaml/gen", "evidence", "replays"):
        os.makedirs(os.path.join(ROOT, d), exist_ok=True)
    with open(os.path.join(ROOT, ".build.lock"), "w") as lk:
        fcntl.flock(lk, fcntl.LOCK_EX)
        t0 = time.time()
        res = {}
        rc, out = sh("./build.sh", cwd=os.path.join(ROOT, "harness"))
        res["harness"] = (rc, out[-3000:])
        if rc != 0:
            raise BuildError("harness build failed (does /repo still compile?)\n" + out[-3000:])
        if not os.path.exists(SHIM) or os.path.getmtime(os.path.join(ROOT, "shim/fjshim.c")) > os.path.getmtime(SHIM):
            rc, out = sh("./build.sh", cwd=os.path.join(ROOT, "shim"))
            if rc != 0:
                raise BuildError("shim build failed\n" + out[-2000:])
        rc, out = sh("coq_makefile -f _CoqProject -o Makefile >/dev/null 2>&1; "
                     "timeout 2400 make -j16 extract/Extract.vo " + " ".join(coq_targets), cwd=COQ)
        res["coq"] = (rc, out)
        need_fjm = (not os.path.exists(FJM) or
                    os.path.getmtime(os.path.join(ROOT, "ocaml/gen/fjmodel.ml")) > os.path.getmtime(FJM) or
                    os.path.getmtime(os.path.join(ROOT, "ocaml/fjm.ml")) > os.path.getmtime(FJM))
        if need_fjm and os.path.exists(os.path.join(ROOT, "ocaml/gen/fjmodel.ml")):
            rc2, out2 = sh("./build.sh", cwd=os.path.join(ROOT, "ocaml"))
            if rc2 != 0:
                raise BuildError("fjm build failed\n" + out2[-2000:])
        res["wall"] = time.time() - t0
        return res


FJV_DBG = os.path.join(ROOT, "harness/target/dbgassert/fjv")


def build_dbg():
    """the harness once more with debug assertions and overflow checks on (profile dbgassert = release + both): what a
    `cargo test` / debug build of an application executes.  Returns the binary path, or None when it does not build."""
    with open(os.path.join(ROOT, ".build.lock"), "w") as lk:
        fcntl.flock(lk, fcntl.LOCK_EX)
        rc, out = sh("CARGO_NET_OFFLINE=true cargo build --profile dbgassert --offline", cwd=os.path.join(ROOT, "harness"), timeout=1800)
        return FJV_DBG if rc == 0 and os.path.exists(FJV_DBG) else None


# ---------------------------------------------------------------- proof audit
FORBIDDEN = re.compile(r"\b(Admitted|admit|Axiom|Parameter|Conjecture|Unset Guard|bypass_check|type-in-type|"
                       r"Admit Obligations|impredicative-set)\b")
ALLOWED_ASSUMPTIONS = {"Closed under the global context"}


def proof_audit(prop_file, theorems, coq_out_rc):
    """Returns (obligations, discharged, problems). prop_file relative to coq/, e.g. props/C03.v"""
    problems = []
    # forbidden constructs anywhere in the development
    for d in ("model", "proofs", "props", "extract"):
        dd = os.path.join(COQ, d)
        for f in sorted(os.listdir(dd)):
            if f.endswith(".v"):
                txt = open(os.path.join(dd, f)).read()
                txt_nc = re.sub(r"\(\*.*?\*\)", "", txt, flags=re.S)
                m = FORBIDDEN.search(txt_nc)
                if m:
                    problems.append(f"{d}/{f}: forbidden construct {m.group(0)}")
    rc, out = coq_out_rc
    vo = os.path.join(COQ, prop_file[:-2] + ".vo")
    if rc != 0 or not os.path.exists(vo):
        m = re.search(r'File "([^"]+)", line (\d+).*?\n(Error:.*?)(?:\n\n|\Z)', out, flags=re.S)
        problems.append("coq build failed: " + (f"{m.group(1)}:{m.group(2)} {m.group(3)[:300]}" if m else out[-600:]))
        return len(theorems), 0, problems
    # re-run the property file alone to capture its Print Assumptions output
    rc2, out2 = sh(f"coqc -q -Q model FJ -Q proofs FJ -Q props FJ -Q extract FJ {prop_file}", cwd=COQ, timeout=900)
    src = open(os.path.join(COQ, prop_file)).read()
    discharged = 0
    blocks = [b.strip() for b in re.split(r"\n(?=Closed under|Axioms:|Section Variables:)", out2) if b.strip()]
    n_print = len(re.findall(r"^Print Assumptions", src, flags=re.M))
    closed = sum(1 for b in blocks if b.startswith("Closed under the global context"))
    for t in theorems:
        if not re.search(r"\b(Theorem|Lemma|Corollary)\s+" + re.escape(t) + r"\b", src):
            problems.append(f"{prop_file}: theorem {t} missing")
        elif not re.search(r"Print Assumptions\s+" + re.escape(t) + r"\s*\.", src):
            problems.append(f"{prop_file}: no Print Assumptions for {t}")
        else:
            discharged += 1
    if rc2 != 0:
        problems.append("coqc on property file failed: " + out2[-400:])
        discharged = 0
    if closed != n_print:
        problems.append(f"{prop_file}: {n_print - closed} theorem(s) depend on assumptions: " +
                        " | ".join(b[:200] for b in blocks if not b.startswith("Closed under")))
        discharged = min(discharged, closed)
    return len(theorems), discharged, problems


def pinned_statements_ok(prop_file, pins):
    """pins: {theorem: sha256 of its normalised statement text}. Detects silent weakening."""
    src = open(os.path.join(COQ, prop_file)).read()
    bad = []
    for t, want in pins.items():
        m = re.search(r"(Theorem|Lemma)\s+" + re.escape(t) + r"\s*:(.*?)\n\s*Proof\.", src, flags=re.S)
        if not m:
            bad.append(t + " (not found)")
            continue
        got = hashlib.sha256(re.sub(r"\s+", " ", m.group(2)).strip().encode()).hexdigest()[:16]
        if want and got != want:
            bad.append(f"{t} (statement hash {got} != pinned {want})")
    return bad


def statement_hash(prop_file, t):
    src = open(os.path.join(COQ, prop_file)).read()
    m = re.search(r"(Theorem|Lemma)\s+" + re.escape(t) + r"\s*:(.*?)\n\s*Proof\.", src, flags=re.S)
    return hashlib.sha256(re.sub(r"\s+", " ", m.group(2)).strip().encode()).hexdigest()[:16] if m else None


# ---------------------------------------------------------------- running programs
def workdir():
    base = "/dev/shm" if os.path.isdir("/dev/shm") else os.path.join(ROOT, ".work")
    return tempfile.mkdtemp(prefix="fjv-", dir=base)


def run_fjv(prog_text, dbdir=None, env_extra=None, timeout=120, keep=False, retry=True):
    """Runs a program through the implementation; returns (dict lineno->result, raw stdout, returncode)."""
    own = dbdir is None
    wd = workdir()
    try:
        pf = os.path.join(wd, "prog")
        open(pf, "w").write(prog_text)
        dbd = dbdir or os.path.join(wd, "db")
        env = dict(ENV)
        if env_extra:
            env.update(env_extra)
        # PATIENT (set by pmap_confirm for the confirming re-run of a scenario that reported a problem): every time limit x5
        patient = bool(PATIENT.get("on"))
        if patient:
            timeout = timeout * 5
            if "FJV_SYNC_TIMEOUT_MS" in env:
                env["FJV_SYNC_TIMEOUT_MS"] = str(int(env["FJV_SYNC_TIMEOUT_MS"]) * 5)
        def once(env_, timeout_):
            try:
                p = subprocess.run([FJV, "run", pf, dbd], env=env_, timeout=timeout_,
                                   stdout=subprocess.PIPE, stderr=subprocess.PIPE, text=True, errors="replace")
                return p.stdout, p.returncode
            except subprocess.TimeoutExpired as e:
                o_ = (e.stdout or b"").decode(errors="replace") if isinstance(e.stdout, bytes) else (e.stdout or "")
                return o_, -99
        out, rc = once(env, timeout)
        # a run that hit the process time limit, or an operation that hit the interpreter's default 30 s limit, on a fresh
        # directory: the machine may simply be overloaded — run it once more with every limit x5 before anybody judges it
        # (a genuine hang hits the larger limits as well).  Not done when the caller manages the directory or set its own limit.
        if retry and own and (rc == -99 or ("FJV_SYNC_TIMEOUT_MS" not in env and " err timeout" in out)) and not patient:
            shutil.rmtree(dbd, ignore_errors=True)
            env2 = dict(env)
            env2.setdefault("FJV_SYNC_TIMEOUT_MS", "150000")
            out, rc = once(env2, timeout * 5)
        return parse_obs(out), out, rc
    finally:
        if not keep:
            shutil.rmtree(wd, ignore_errors=True)


def run_fjm(prog_text, cfg="as_is", timeout=120):
    wd = workdir()
    try:
        pf = os.path.join(wd, "prog")
        open(pf, "w").write(prog_text)
        p = subprocess.run([FJM, "run", cfg, pf], env=ENV, timeout=timeout,
                           stdout=subprocess.PIPE, stderr=subprocess.PIPE, text=True)
        if p.returncode != 0:
            raise RuntimeError("fjm failed: " + p.stderr[-500:])
        return parse_obs(p.stdout)
    finally:
        shutil.rmtree(wd, ignore_errors=True)


def parse_obs(out):
    d = {}
    for line in out.splitlines():
        m = re.match(r"^(\d+) (.*)$", line)
        if m:
            d[int(m.group(1))] = m.group(2)
    return d


def canon(res):
    """Canonical form of one observation for comparison."""
    if res is None:
        return "<missing>"
    if res.startswith("ok "):
        return "ok"
    if res.startswith("panic"):
        return "panic"
    return res


UNCOMPARED_OPS = ("info", "seqnos", "sleep", "arm", "exit", "close", "step", "drain", "persist", "open")


def compare(prog_text, a, b, ignore_ops=UNCOMPARED_OPS):
    """First differing line between two observation dicts (skipping lines whose op is not compared
    or that the model marks 'skip')."""
    lines = prog_text.splitlines()
    for i, l in enumerate(lines, 1):
        t = l.strip()
        if not t or t.startswith("#"):
            continue
        op = t.split()[0]
        if op in ignore_ops:
            continue
        ra, rb = a.get(i), b.get(i)
        if ra == "skip" or rb == "skip":
            continue
        if canon(ra) != canon(rb):
            return i, ra, rb
    return None


def cfg_bits(off=()):
    return "".join("0" if s in off else "1" for s in SWITCHES)


# ---------------------------------------------------------------- known findings
def load_known():
    p = os.path.join(ROOT, "known_findings.json")
    return json.load(open(p)) if os.path.exists(p) else {"findings": [], "fixed": []}


def known_switch(prop, switch):
    for f in load_known()["findings"]:
        if switch == f.get("switch") and prop in f.get("properties", []):
            return f
    return None


# ---------------------------------------------------------------- shrinking
def ddmin_lines(prog_text, still_fails, keep_first=1, budget=150):
    lines = [l for l in prog_text.splitlines() if l.strip()]
    head, body = lines[:keep_first], lines[keep_first:]
    n = 2
    tries = 0
    while len(body) >= 2 and tries < budget:
        chunk = max(1, len(body) // n)
        reduced = False
        for i in range(0, len(body), chunk):
            cand = body[:i] + body[i + chunk:]
            tries += 1
            if cand and still_fails("\n".join(head + cand) + "\n"):
                body = cand
                n = max(n - 1, 2)
                reduced = True
                break
            if tries >= budget:
                break
        if not reduced:
            if chunk == 1:
                break
            n = min(n * 2, len(body))
    return "\n".join(head + body) + "\n"


# ---------------------------------------------------------------- reporting
class Report:
    def __init__(self, prop, tier, seed, level):
        self.prop, self.tier, self.seed, self.level = prop, tier, seed, level
        self.t0 = time.time()
        self.violations = []
        self.known = []
        self.coverage = {}
        self.assumptions = []

    def violation(self, replay_text, suffix=""):
        os.makedirs(os.path.join(ROOT, "replays"), exist_ok=True)
        h = hashlib.sha256(replay_text.encode()).hexdigest()[:10]
        path = os.path.join(ROOT, "replays", f"{self.prop}-{h}.txt")
        open(path, "w").write(replay_text)
        self.violations.append((path, suffix))

    def known_finding(self, what):
        if what not in self.known:
            self.known.append(what)

    def finish(self):
        for k in self.known:
            print(f"KNOWN-FINDING: property={self.prop} {k}")
        for path, suffix in self.violations[:5]:
            print(f"VIOLATION property={self.prop} replay={path}" + (f" {suffix}" if suffix else ""))
        ev = {"property_id": self.prop, "tier": self.tier, "seed": self.seed, "level": self.level,
              "coverage": self.coverage, "assumptions": self.assumptions,
              "wall_s": round(time.time() - self.t0, 2), "violations": len(self.violations)}
        os.makedirs(os.path.join(ROOT, "evidence"), exist_ok=True)
        json.dump(ev, open(os.path.join(ROOT, "evidence", self.prop + ".json"), "w"), indent=1)
        sys.stdout.flush()
        return 1 if self.violations else 0


def pmap(fn, items, workers=NPROC):
    with ThreadPoolExecutor(max_workers=workers) as ex:
        return list(ex.map(fn, items))


PATIENT = {}


def pmap_confirm(fn, items, isbad, workers=NPROC):
    """pmap for timing-dependent scenarios (pause-point schedules, progress watchdogs, fault timing): a scenario that reports
    a problem is run once more, alone and with every time limit x5; the problem counts only if it shows again.  A defect
    fails both runs; a hiccup of an overloaded machine does not.  Returns (results, number of unconfirmed alarms)."""
    items = list(items)
    res = pmap(fn, items, workers=workers)
    unconfirmed = 0
    for i, r in enumerate(res):
        if isbad(r):
            PATIENT["on"] = True
            try:
                r2 = fn(items[i])
            finally:
                PATIENT.pop("on", None)
            if not isbad(r2):
                unconfirmed += 1
                log("unconfirmed alarm (not reproduced with relaxed time limits): %s" % (str(r)[:300],))
                res[i] = r2
    return res, unconfirmed


TRUSTED_BASE = [
    "Coq 8.16.1 kernel (coqc); vm_compute only in Example witnesses; no native_compute",
    "no axioms declared; Print Assumptions of every property theorem must be 'Closed under the global context' "
    "(xxh3 / lz4 are Section variables, the lz4 round trip is a hypothesis inside wf_entry)",
    "extraction: ExtrOcamlBasic only (bool, option, list, prod, unit, sumbool); OCaml 4.13.1 ocamlfind ocamlopt; "
    "hand-written driver ocaml/fjm.ml (parsing/printing) and the xxh3/lz4 oracle pipe to `fjv oracle`",
    "correspondence check: harness/ (fjv), py/ generators, canonicaliser and oracles, shim/fjshim.so",
    "modelled, not verified: lsm-tree below the Lsm.v contract, the OS (files as byte lists), Rust sync primitives",
]
