#!/bin/sh
# Builds /verif/shim/fjshim.so (see SPEC.md).
set -eu
cd "$(dirname "$0")"
gcc -O2 -shared -fPIC -o fjshim.so fjshim.c -ldl -lpthread
echo "built $(pwd)/fjshim.so"
