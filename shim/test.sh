#!/bin/bash
# Self-test of fjshim.so (see SPEC.md).  Prints "shim selftest ok" and exits 0 on success.
set -u
HERE="$(cd "$(dirname "$0")" && pwd)"
SHIM="$HERE/fjshim.so"

[ -f "$SHIM" ] && [ "$SHIM" -nt "$HERE/fjshim.c" ] || "$HERE/build.sh" >/dev/null || {
    echo "FAIL: build"; exit 1; }

T="$(mktemp -d /dev/shm/fjshim-test.XXXXXX)" || exit 1
trap 'rm -rf "$T"' EXIT
FAILS=0
fail() { echo "FAIL: $*"; FAILS=$((FAILS + 1)); }
# eq <description> <expected> <actual>
eq() {
    if [ "$2" != "$3" ]; then
        fail "$1"; echo "--- expected"; echo "$2"; echo "--- actual"; echo "$3"; echo "---"
    fi
}
# fd numbers returned by open/openat/creat depend on the environment
normlog() { sed -E 's/^([0-9]+ (open|openat|creat) .* )[0-9]+$/\1FD/' "$1"; }
# fresh <name>: new empty root, sets ROOT LOG CNT OUT
fresh() {
    ROOT="$T/$1.root"; LOG="$T/$1.log"; CNT="$T/$1.cnt"; OUT="$T/$1.out"
    rm -rf "$ROOT" "$ROOT.outside" "$LOG" "$CNT" "$OUT"; mkdir "$ROOT"
}
# shim VAR=val ... -- cmd args   (runs cmd under the shim with ROOT/LOG/CNT)
shim() {
    local envs=()
    while [ "$1" != "--" ]; do envs+=("FJSHIM_$1"); shift; done; shift
    env LD_PRELOAD="$SHIM" FJSHIM_ROOT="$ROOT" FJSHIM_LOG="$LOG" FJSHIM_COUNT_FILE="$CNT" \
        "${envs[@]}" "$@"
}

# ---------------------------------------------------------------- C program
cat >"$T/t_c.c" <<'EOF'
#define _GNU_SOURCE
#include <errno.h>
#include <fcntl.h>
#include <pthread.h>
#include <stdio.h>
#include <stdlib.h>
#include <string.h>
#include <sys/stat.h>
#include <sys/uio.h>
#include <unistd.h>

static void rep(const char *what, long r)
{
    if (r < 0) printf("%s=-1 errno=%d\n", what, errno);
    else printf("%s=%ld\n", what, r);
}
static const char *root;
static char *P(const char *rel)
{
    char *s = malloc(strlen(root) + strlen(rel) + 2);
    sprintf(s, "%s%s", root, rel);
    return s;
}

static void *worker(void *arg)
{
    char rel[64], buf[10];
    int i, fd;
    sprintf(rel, "/t%ld.jnl", (long)arg);
    fd = open(P(rel), O_CREAT | O_WRONLY | O_TRUNC, 0644);
    memset(buf, 'a' + (int)(long)arg, sizeof buf);
    for (i = 0; i < 100; i++) {
        if (write(fd, buf, sizeof buf) != 10) abort();
        if (i % 10 == 9 && fsync(fd) != 0) abort();
    }
    close(fd);
    return NULL;
}

int main(int argc, char **argv)
{
    int fd, fd2, dfd, volatile_flags = O_RDONLY | O_DIRECTORY;
    struct iovec iov[2];
    const char *arm = argc > 3 && argv[3][0] ? argv[3] : NULL;
    root = argv[2];

    if (!strcmp(argv[1], "threads")) {
        pthread_t th[8];
        long i;
        for (i = 0; i < 8; i++) pthread_create(&th[i], NULL, worker, (void *)i);
        for (i = 0; i < 8; i++) pthread_join(th[i], NULL);
        return 0;
    }

    /* same string prefix as the root but not inside it: never an event */
    fd = open(P(".outside"), O_CREAT | O_WRONLY | O_TRUNC, 0644);
    rep("outside.write", write(fd, "out", 3));
    rep("outside.fsync", fsync(fd));
    close(fd);
    rep("stderr.write", write(2, "stderr ok\n", 10));

    rep("mkdir", mkdir(P("/d"), 0755));                                    /* 1 */
    fd = open(P("/d/a.jnl"), O_CREAT | O_WRONLY | O_TRUNC, 0644);          /* 2 */
    rep("open", fd < 0 ? -1 : 0);
    errno = 77; /* successful calls must leave errno alone */
    rep("write", write(fd, "hello", 5));                                   /* 3 */
    rep("fsync", fsync(fd));                                               /* 4 */
    printf("errno_kept=%d\n", errno);
    if (arm) close(open(arm, O_CREAT | O_WRONLY, 0644));
    rep("pwrite", pwrite(fd, "XY", 2, 1));                                 /* 5 */
    iov[0].iov_base = "ab"; iov[0].iov_len = 2;
    iov[1].iov_base = "cde"; iov[1].iov_len = 3;
    rep("writev", writev(fd, iov, 2));                                     /* 6 */
    rep("ftruncate", ftruncate(fd, 3));                                    /* 7 */
    rep("fdatasync", fdatasync(fd));                                       /* 8 */
    close(fd);
    dfd = open(P("/d/../d/./"), volatile_flags);
    rep("dirfsync", fsync(dfd));                                           /* 9 */
    rep("rename", rename(P("/d/a.jnl"), P("/d/b.jnl")));                   /* 10 */
    fd = open(P("/d/b.jnl"), O_WRONLY | O_APPEND);       /* no O_CREAT: not an event */
    rep("append", write(fd, "zz", 2));                                     /* 11 */
    fd2 = dup(fd);
    rep("dupwrite", write(fd2, "q", 1));                                   /* 12 */
    close(fd); close(fd2);
    fd = openat(dfd, "c", O_CREAT | O_WRONLY, 0644);                       /* 13 */
    rep("openat", fd < 0 ? -1 : 0);
    close(fd);
    rep("unlinkat", unlinkat(dfd, "c", 0));                                /* 14 */
    fd = open(P("/d/b.jnl"), O_RDONLY);
    { char b[16]; long n = read(fd, b, sizeof b); printf("content=%.*s\n", (int)(n < 0 ? 0 : n), b); }
    close(fd);
    rep("unlink", unlink(P("/d/b.jnl")));                                  /* 15 */
    close(dfd);
    rep("rmdir", rmdir(P("/d")));                                          /* 16 */
    return 0;
}
EOF
gcc -O2 -pthread -o "$T/t_c" "$T/t_c.c" || { echo "FAIL: compile t_c"; exit 1; }
# LFS + fortify build: goes through open64/pwrite64/ftruncate64/__open64_2/fcntl64
gcc -O2 -pthread -D_FILE_OFFSET_BITS=64 -D_FORTIFY_SOURCE=2 -o "$T/t_c64" "$T/t_c.c" ||
    { echo "FAIL: compile t_c64"; exit 1; }

FULLLOG='1 mkdir d - - 0
2 open d/a.jnl - 0 FD
3 write d/a.jnl 0 5 5
4 fsync d/a.jnl - - 0
5 pwrite d/a.jnl 1 2 2
6 writev d/a.jnl 5 5 5
7 ftruncate d/a.jnl - 3 0
8 fdatasync d/a.jnl - - 0
9 fsync d - - 0
10 rename d/a.jnl>d/b.jnl - - 0
11 write d/b.jnl 3 2 2
12 write d/b.jnl 5 1 1
13 openat d/c - - FD
14 unlinkat d/c - - 0
15 unlink d/b.jnl - - 0
16 rmdir d - - 0'

# --- no shim at all: reference output
fresh ref
"$T/t_c" seq "$ROOT" >"$OUT" 2>/dev/null; REFST=$?
REFOUT="$(cat "$OUT")"
eq "reference run status" 0 "$REFST"
eq "reference content" "content=hXYzzq" "$(grep '^content=' "$OUT")"

# --- preloaded but no FJSHIM_ROOT: completely passive
fresh passive
env LD_PRELOAD="$SHIM" FJSHIM_LOG="$LOG" FJSHIM_COUNT_FILE="$CNT" FJSHIM_CRASH_AT=1 \
    "$T/t_c" seq "$ROOT" >"$OUT" 2>/dev/null
eq "passive status" 0 $?
eq "passive output" "$REFOUT" "$(cat "$OUT")"
[ ! -e "$LOG" ] && [ ! -e "$CNT" ] || fail "passive: log or count file created"
[ -z "$(ls -A "$ROOT")" ] || fail "passive: root not empty at end"

# --- trace
for prog in t_c t_c64; do
    fresh trace
    shim -- "$T/$prog" seq "$ROOT" >"$OUT" 2>"$T/err"
    eq "$prog trace status" 0 $?
    eq "$prog trace output" "$REFOUT" "$(cat "$OUT")"
    eq "$prog trace stderr" "stderr ok" "$(cat "$T/err")"
    eq "$prog trace log" "$FULLLOG" "$(normlog "$LOG")"
    eq "$prog trace count" 16 "$(cat "$CNT")"
    eq "$prog outside file" "out" "$(cat "$ROOT.outside")"
done

# --- relative FJSHIM_ROOT and relative paths in the program
fresh relroot
(cd "$T" && env LD_PRELOAD="$SHIM" FJSHIM_ROOT="./relroot.root/" FJSHIM_LOG="$LOG" \
    "$T/t_c" seq relroot.root >"$OUT" 2>/dev/null)
eq "relative root log" "$FULLLOG" "$(normlog "$LOG")"

# --- crash before event 3: exactly the effects of events 1-2, status 137, nothing flushed
fresh crash
shim CRASH_AT=3 -- "$T/t_c" seq "$ROOT" >"$OUT" 2>/dev/null
eq "crash status" 137 $?
eq "crash: stdio buffer not flushed" "" "$(cat "$OUT")"
eq "crash tree" "d
d/a.jnl" "$(cd "$ROOT" && find . -mindepth 1 | sed 's|^\./||' | sort)"
eq "crash file size" 0 "$(stat -c %s "$ROOT/d/a.jnl")"
eq "crash log" "1 mkdir d - - 0
2 open d/a.jnl - 0 FD
3 write d/a.jnl 0 5 CRASH" "$(normlog "$LOG")"
eq "crash count" 3 "$(cat "$CNT")"

fresh crash1
shim CRASH_AT=1 -- "$T/t_c" seq "$ROOT" >"$OUT" 2>/dev/null
eq "crash@1 status" 137 $?
[ -z "$(ls -A "$ROOT")" ] || fail "crash@1: root not empty"
eq "crash@1 log" "1 mkdir d - - CRASH" "$(cat "$LOG")"

fresh crash10
shim CRASH_AT=10 -- "$T/t_c" seq "$ROOT" >"$OUT" 2>/dev/null
eq "crash@10 status" 137 $?
eq "crash@10 content" "hXY" "$(cat "$ROOT/d/a.jnl")"
eq "crash@10 last" "10 rename d/a.jnl>d/b.jnl - - CRASH" "$(tail -n 1 "$LOG")"

# --- torn write
fresh torn
shim CRASH_AT=3 TORN=2 -- "$T/t_c" seq "$ROOT" >"$OUT" 2>/dev/null
eq "torn status" 137 $?
eq "torn content" "he" "$(cat "$ROOT/d/a.jnl")"
eq "torn last" "3 write d/a.jnl 0 5 TORN 2" "$(tail -n 1 "$LOG")"
eq "torn count" 3 "$(cat "$CNT")"

fresh tornmax
shim CRASH_AT=3 TORN=100 -- "$T/t_c" seq "$ROOT" >"$OUT" 2>/dev/null
eq "torn(100) content = len-1 bytes" "hell" "$(cat "$ROOT/d/a.jnl")"
eq "torn(100) last" "3 write d/a.jnl 0 5 TORN 4" "$(tail -n 1 "$LOG")"

fresh tornp
shim CRASH_AT=5 TORN=1 -- "$T/t_c" seq "$ROOT" >"$OUT" 2>/dev/null
eq "torn pwrite content" "hXllo" "$(cat "$ROOT/d/a.jnl")"
eq "torn pwrite last" "5 pwrite d/a.jnl 1 2 TORN 1" "$(tail -n 1 "$LOG")"

fresh tornv
shim CRASH_AT=6 TORN=3 -- "$T/t_c" seq "$ROOT" >"$OUT" 2>/dev/null
eq "torn writev content" "hXYloabc" "$(cat "$ROOT/d/a.jnl")"
eq "torn writev last" "6 writev d/a.jnl 5 5 TORN 3" "$(tail -n 1 "$LOG")"

fresh tornnw
shim CRASH_AT=4 TORN=2 -- "$T/t_c" seq "$ROOT" >"$OUT" 2>/dev/null
eq "torn on non-write = crash" "4 fsync d/a.jnl - - CRASH" "$(tail -n 1 "$LOG")"

# --- faults
fresh fsync1
shim FAULT_AT=1 FAULT_CLASS=sync -- "$T/t_c" seq "$ROOT" >"$OUT" 2>/dev/null
eq "fault sync status" 0 $?
eq "fault sync: fsync" "fsync=-1 errno=5" "$(grep '^fsync=' "$OUT")"
eq "fault sync: fdatasync ok" "fdatasync=0" "$(grep '^fdatasync=' "$OUT")"
eq "fault sync log" "4 fsync d/a.jnl - - E5" "$(grep '^4 ' "$LOG")"
eq "fault sync count" 16 "$(cat "$CNT")"

fresh fsync2
shim FAULT_AT=2 FAULT_CLASS=sync FAULT_ERRNO=28 -- "$T/t_c" seq "$ROOT" >"$OUT" 2>/dev/null
eq "fault sync#2 = fdatasync, ENOSPC" "fsync=0
fdatasync=-1 errno=28
dirfsync=0" "$(grep -E '^(fsync|fdatasync|dirfsync)=' "$OUT")"

fresh fsync3
shim FAULT_AT=3 FAULT_CLASS=sync -- "$T/t_c" seq "$ROOT" >"$OUT" 2>/dev/null
eq "default FAULT_PATH=.jnl excludes dir fsync" "$REFOUT" "$(cat "$OUT")"
fresh fsync3b
shim FAULT_AT=3 FAULT_CLASS=sync FAULT_PATH= -- "$T/t_c" seq "$ROOT" >"$OUT" 2>/dev/null
eq "FAULT_PATH= includes dir fsync" "dirfsync=-1 errno=5" "$(grep '^dirfsync=' "$OUT")"

fresh short
shim FAULT_AT=2 FAULT_CLASS=write FAULT_SHORT=1 -- "$T/t_c" seq "$ROOT" >"$OUT" 2>/dev/null
eq "short write results" "write=5
pwrite=1
writev=-1 errno=5
append=2
dupwrite=1
content=hXlzzq" "$(grep -E '^(write|pwrite|writev|append|dupwrite|content)=' "$OUT")"
eq "short write log" "5 pwrite d/a.jnl 1 2 1
6 writev d/a.jnl 5 5 E5" "$(grep -E '^(5|6) ' "$LOG")"

fresh shortbig
shim FAULT_AT=2 FAULT_CLASS=write FAULT_SHORT=2 -- "$T/t_c" seq "$ROOT" >"$OUT" 2>/dev/null
eq "short k >= len fails outright" "pwrite=-1 errno=5
writev=5" "$(grep -E '^(pwrite|writev)=' "$OUT")"

fresh sticky
shim FAULT_AT=2 FAULT_CLASS=write FAULT_STICKY=1 -- "$T/t_c" seq "$ROOT" >"$OUT" 2>/dev/null
eq "sticky" "write=5
pwrite=-1 errno=5
writev=-1 errno=5
append=-1 errno=5
dupwrite=-1 errno=5" "$(grep -E '^(write|pwrite|writev|append|dupwrite)=' "$OUT")"

fresh once
shim FAULT_AT=2 FAULT_CLASS=write -- "$T/t_c" seq "$ROOT" >"$OUT" 2>/dev/null
eq "non-sticky fails once" "write=5
pwrite=-1 errno=5
writev=5
append=2
dupwrite=1" "$(grep -E '^(write|pwrite|writev|append|dupwrite)=' "$OUT")"

fresh ftrunc
shim FAULT_AT=1 FAULT_CLASS=trunc -- "$T/t_c" seq "$ROOT" >"$OUT" 2>/dev/null
eq "fault trunc" "ftruncate=-1 errno=5" "$(grep '^ftruncate=' "$OUT")"
fresh funlink
shim FAULT_AT=1 FAULT_CLASS=unlink -- "$T/t_c" seq "$ROOT" >"$OUT" 2>/dev/null
eq "fault unlink (.jnl only)" "unlinkat=0
unlink=-1 errno=5" "$(grep -E '^(unlinkat|unlink)=' "$OUT")"
fresh fany
shim FAULT_AT=1 -- "$T/t_c" seq "$ROOT" >"$OUT" 2>/dev/null
eq "fault any #1 on *.jnl = open" "open=-1 errno=5" "$(grep '^open=' "$OUT")"

# --- arming
fresh arm
ARM="$T/arm.flag"; rm -f "$ARM"
shim ARM_FILE="$ARM" CRASH_AT=2 -- "$T/t_c" seq "$ROOT" "$ARM" >"$OUT" 2>/dev/null
eq "arm status" 137 $?
eq "arm log (events numbered from arming)" "1 pwrite d/a.jnl 1 2 2
2 writev d/a.jnl 5 5 CRASH" "$(cat "$LOG")"
eq "arm content" "hXYlo" "$(cat "$ROOT/d/a.jnl")"
eq "arm count" 2 "$(cat "$CNT")"
fresh unarmed
rm -f "$ARM"
shim ARM_FILE="$ARM" CRASH_AT=2 -- "$T/t_c" seq "$ROOT" >"$OUT" 2>/dev/null
eq "never armed status" 0 $?
eq "never armed output" "$REFOUT" "$(cat "$OUT")"
eq "never armed log" "" "$(cat "$LOG" 2>/dev/null)"
eq "never armed count" 0 "$(cat "$CNT")"

# --- threads: every number exactly once, per-file offsets in order
fresh threads
shim -- "$T/t_c" threads "$ROOT"
eq "threads status" 0 $?
eq "threads count" 888 "$(cat "$CNT")"
eq "threads numbering" "$(seq 1 888)" "$(cut -d' ' -f1 "$LOG" | sort -n)"
for i in 0 1 2 3 4 5 6 7; do
    eq "thread $i offsets" "$(seq 0 10 990)" \
        "$(grep "^[0-9]* write t$i.jnl " "$LOG" | sort -n | cut -d' ' -f4)"
    eq "thread $i size" 1000 "$(stat -c %s "$ROOT/t$i.jnl")"
done

# ---------------------------------------------------------------- Rust program
if command -v rustc >/dev/null 2>&1; then
cat >"$T/t_rs.rs" <<'EOF'
use std::fs::{self, File, OpenOptions};
use std::io::{self, Write};
use std::path::PathBuf;

fn rep<T>(what: &str, r: io::Result<T>) -> Option<T> {
    match r {
        Ok(v) => { println!("{}: ok", what); Some(v) }
        Err(e) => { println!("{}: err {}", what, e.raw_os_error().unwrap_or(-1)); None }
    }
}

fn main() {
    let root = PathBuf::from(std::env::args().nth(1).unwrap());
    rep("create_dir_all", fs::create_dir_all(root.join("r/s")));
    let p = root.join("r/s/x.jnl");
    let q = root.join("r/s/y.jnl");
    if let Some(mut f) = rep("create", File::create(&p)) {
        rep("write_all", f.write_all(b"hello world"));
        rep("sync_all", f.sync_all());
        rep("set_len", f.set_len(4));
        rep("sync_data", f.sync_data());
    }
    rep("rename", fs::rename(&p, &q));
    if let Some(d) = rep("open_dir", File::open(root.join("r/s"))) {
        rep("dir_sync", d.sync_all());
    }
    if let Some(mut f) = rep("open_append", OpenOptions::new().append(true).open(&q)) {
        rep("append", f.write_all(b"++"));
    }
    println!("content: {:?}", fs::read(&q).map(|v| String::from_utf8_lossy(&v).into_owned()).ok());
    rep("remove_file", fs::remove_file(&q));
    rep("create2", File::create(root.join("r/s/z")).map(|_| ()));
    rep("remove_dir_all", fs::remove_dir_all(root.join("r")));
}
EOF
rustc -O -o "$T/t_rs" "$T/t_rs.rs" 2>"$T/rustc.err" || { fail "compile t_rs"; cat "$T/rustc.err"; }

if [ -x "$T/t_rs" ]; then
fresh rsref
"$T/t_rs" "$ROOT" >"$OUT" 2>&1
RSREF="$(cat "$OUT")"
eq "rust reference" 'create_dir_all: ok
create: ok
write_all: ok
sync_all: ok
set_len: ok
sync_data: ok
rename: ok
open_dir: ok
dir_sync: ok
open_append: ok
append: ok
content: Some("hell++")
remove_file: ok
create2: ok
remove_dir_all: ok' "$RSREF"

fresh rspassive
env LD_PRELOAD="$SHIM" "$T/t_rs" "$ROOT" >"$OUT" 2>&1
eq "rust passive" "$RSREF" "$(cat "$OUT")"

fresh rstrace
shim -- "$T/t_rs" "$ROOT" >"$OUT" 2>&1
eq "rust trace status" 0 $?
eq "rust trace output" "$RSREF" "$(cat "$OUT")"
[ -z "$(ls -A "$ROOT")" ] || fail "rust trace: root not empty at end"
# the expected calls, in this order (other events, e.g. a failed first mkdir, may be interleaved)
EXPECT='mkdir r - - 0
mkdir r/s - - 0
open r/s/x.jnl - 0 FD
write r/s/x.jnl 0 11 11
fsync r/s/x.jnl - - 0
ftruncate r/s/x.jnl - 4 0
fdatasync r/s/x.jnl - - 0
rename r/s/x.jnl>r/s/y.jnl - - 0
fsync r/s - - 0
write r/s/y.jnl 4 2 2
unlink r/s/y.jnl - - 0
open r/s/z - 0 FD
unlinkat r/s/z - - 0
unlinkat r/s - - 0'
GOT="$(normlog "$LOG" | cut -d' ' -f2-)"
REST="$GOT"
while IFS= read -r want; do
    if ! printf '%s\n' "$REST" | grep -qxF -- "$want"; then
        fail "rust trace: missing (or out of order): $want"; echo "$GOT"; break
    fi
    REST="$(printf '%s\n' "$REST" | sed -n "/^$(printf '%s' "$want" | sed 's/[][\.*^$/]/\\&/g')\$/,\$p" | tail -n +2)"
done <<<"$EXPECT"
printf '%s\n' "$GOT" | grep -qE '^(rmdir|unlinkat) r - - 0$' || fail "rust trace: removal of r not logged"
eq "rust numbering" "$(seq 1 "$(wc -l <"$LOG")")" "$(cut -d' ' -f1 "$LOG")"
eq "rust count" "$(wc -l <"$LOG" | tr -d ' ')" "$(cat "$CNT")"
NW="$(grep ' write r/s/x.jnl ' "$LOG" | cut -d' ' -f1)"
NO="$(grep ' open r/s/x.jnl ' "$LOG" | cut -d' ' -f1)"

fresh rscrash
shim CRASH_AT="$NW" -- "$T/t_rs" "$ROOT" >"$OUT" 2>&1
eq "rust crash status" 137 $?
eq "rust crash: file created, empty" 0 "$(stat -c %s "$ROOT/r/s/x.jnl")"
eq "rust crash last" "$NW write r/s/x.jnl 0 11 CRASH" "$(tail -n 1 "$LOG")"
fresh rscrash0
shim CRASH_AT="$NO" -- "$T/t_rs" "$ROOT" >"$OUT" 2>&1
eq "rust crash@open status" 137 $?
[ -d "$ROOT/r/s" ] && [ ! -e "$ROOT/r/s/x.jnl" ] || fail "rust crash@open: wrong effects"

fresh rstorn
shim CRASH_AT="$NW" TORN=2 -- "$T/t_rs" "$ROOT" >"$OUT" 2>&1
eq "rust torn status" 137 $?
eq "rust torn content" "he" "$(cat "$ROOT/r/s/x.jnl")"

fresh rsfault
shim FAULT_AT=1 FAULT_CLASS=sync -- "$T/t_rs" "$ROOT" >"$OUT" 2>&1
eq "rust fault sync status" 0 $?
eq "rust fault sync" "sync_all: err 5
sync_data: ok
dir_sync: ok" "$(grep -E '^(sync_all|sync_data|dir_sync):' "$OUT")"

fresh rsshort
shim FAULT_AT=1 FAULT_CLASS=write FAULT_SHORT=4 -- "$T/t_rs" "$ROOT" >"$OUT" 2>&1
eq "rust short: write_all sees the error of the follow-up write" "write_all: err 5
append: ok" "$(grep -E '^(write_all|append):' "$OUT")"
eq "rust short log" "write r/s/x.jnl 0 11 4
write r/s/x.jnl 4 7 E5" "$(grep ' write r/s/x.jnl ' "$LOG" | cut -d' ' -f2-)"

fresh rsenospc
shim FAULT_AT=1 FAULT_CLASS=trunc FAULT_ERRNO=28 -- "$T/t_rs" "$ROOT" >"$OUT" 2>&1
eq "rust fault set_len ENOSPC" "set_len: err 28" "$(grep '^set_len:' "$OUT")"
fi
else
    echo "note: rustc not on PATH, Rust part skipped"
fi

if [ "$FAILS" -ne 0 ]; then
    echo "shim selftest FAILED ($FAILS)"
    exit 1
fi
echo "shim selftest ok"
