/*
 * fjshim.so -- LD_PRELOAD syscall shim: trace, crash-at-n, torn write, I/O fault.
 * See SPEC.md.  Build: gcc -O2 -shared -fPIC -o fjshim.so fjshim.c -ldl -lpthread
 *
 * Log line:  <n> <call> <path-relative-to-root> <offset> <len> <ret>
 *            <n> <call> <path> <offset> <len> CRASH
 *            <n> <call> <path> <offset> <len> TORN <k>
 */
#undef _FORTIFY_SOURCE
#undef _FILE_OFFSET_BITS
#define _GNU_SOURCE
#include <dirent.h>
#include <dlfcn.h>
#include <errno.h>
#include <fcntl.h>
#include <limits.h>
#include <pthread.h>
#include <stdarg.h>
#include <stdio.h>
#include <stdlib.h>
#include <string.h>
#include <sys/stat.h>
#include <sys/syscall.h>
#include <sys/types.h>
#include <sys/uio.h>
#include <time.h>
#include <unistd.h>

#ifndef PATH_MAX
#define PATH_MAX 4096
#endif

/* ------------------------------------------------------------------ */
/* real functions                                                      */

#define DECL_REAL(ret, name, ...) static ret (*real_##name)(__VA_ARGS__)
#define REAL(name)                                                     \
    do {                                                               \
        if (!real_##name)                                              \
            *(void **)(&real_##name) = dlsym(RTLD_NEXT, #name);        \
    } while (0)

DECL_REAL(ssize_t, write, int, const void *, size_t);
DECL_REAL(ssize_t, pwrite, int, const void *, size_t, off_t);
DECL_REAL(ssize_t, pwrite64, int, const void *, size_t, off64_t);
DECL_REAL(ssize_t, writev, int, const struct iovec *, int);
DECL_REAL(ssize_t, pwritev, int, const struct iovec *, int, off_t);
DECL_REAL(ssize_t, pwritev64, int, const struct iovec *, int, off64_t);
DECL_REAL(int, ftruncate, int, off_t);
DECL_REAL(int, ftruncate64, int, off64_t);
DECL_REAL(int, fsync, int);
DECL_REAL(int, fdatasync, int);
DECL_REAL(int, sync_file_range, int, off64_t, off64_t, unsigned int);
DECL_REAL(int, fallocate, int, int, off_t, off_t);
DECL_REAL(int, fallocate64, int, int, off64_t, off64_t);
DECL_REAL(int, posix_fallocate, int, off_t, off_t);
DECL_REAL(int, posix_fallocate64, int, off64_t, off64_t);
DECL_REAL(int, unlink, const char *);
DECL_REAL(int, unlinkat, int, const char *, int);
DECL_REAL(int, rename, const char *, const char *);
DECL_REAL(int, renameat, int, const char *, int, const char *);
DECL_REAL(int, renameat2, int, const char *, int, const char *, unsigned int);
DECL_REAL(int, mkdir, const char *, mode_t);
DECL_REAL(int, mkdirat, int, const char *, mode_t);
DECL_REAL(int, rmdir, const char *);
DECL_REAL(int, open, const char *, int, ...);
DECL_REAL(int, open64, const char *, int, ...);
DECL_REAL(int, openat, int, const char *, int, ...);
DECL_REAL(int, openat64, int, const char *, int, ...);
DECL_REAL(int, creat, const char *, mode_t);
DECL_REAL(int, creat64, const char *, mode_t);
DECL_REAL(int, close, int);
DECL_REAL(int, dup, int);
DECL_REAL(int, dup2, int, int);
DECL_REAL(int, dup3, int, int, int);
DECL_REAL(int, fcntl, int, int, ...);
DECL_REAL(int, fcntl64, int, int, ...);
DECL_REAL(int, closedir, DIR *);
DECL_REAL(int, fclose, FILE *);

/* ------------------------------------------------------------------ */
/* configuration and global state                                      */

enum { C_WRITE = 1, C_SYNC, C_TRUNC, C_UNLINK, C_OTHER };
enum { A_PASS = 0, A_FAIL, A_SHORT, A_TORN };

static int g_inited;
static pthread_mutex_t g_initmu = PTHREAD_MUTEX_INITIALIZER;
static pthread_mutex_t g_mu = PTHREAD_MUTEX_INITIALIZER;

static char *g_root;      /* lexically normalised, no trailing '/', "" for "/" */
static size_t g_rootlen;
static char *g_root2;     /* realpath(root) when different, else NULL */
static size_t g_root2len;
static const char *g_armfile;
static int g_armed;
static int g_logfd = -1;
static const char *g_countfile;
static long g_crash_at;
static long g_torn = -1;
static long g_fault_at;
static int g_fault_class; /* 0 = any */
static const char *g_fault_path = ".jnl";
static int g_fault_errno = EIO;
static long g_fault_short = -1;
static int g_fault_sticky;
static int g_fault_short_transient; /* a short write is not followed by a failing call (e.g. an interrupted write) */
static long g_fault_delay_ms; /* the failing call sleeps this long (mutex released) before reporting the error */

static long g_count;       /* events seen */
static long g_match;       /* events matching the fault filter */
static int g_short_pending;

#define FD_MAX 65536
typedef struct {
    char *path; /* absolute, inside root; NULL = not tracked */
    int reloff; /* offset of root-relative part in path */
    dev_t dev;
    ino_t ino;
} fdent_t;
static fdent_t g_fd[FD_MAX];
static int g_fd_hi; /* 1 + highest fd ever tracked */

static long env_long(const char *name, long dflt)
{
    const char *s = getenv(name);
    char *end;
    long v;
    if (!s || !*s)
        return dflt;
    v = strtol(s, &end, 10);
    if (end == s)
        return dflt;
    return v;
}

/* lexical normalisation of an absolute path, in place */
static void normalize(char *p)
{
    char *src = p, *dst = p;
    while (*src) {
        char *e;
        size_t l;
        while (*src == '/')
            src++;
        if (!*src)
            break;
        e = src;
        while (*e && *e != '/')
            e++;
        l = (size_t)(e - src);
        if (l == 1 && src[0] == '.') {
            /* skip */
        } else if (l == 2 && src[0] == '.' && src[1] == '.') {
            while (dst > p) {
                dst--;
                if (*dst == '/')
                    break;
            }
        } else {
            *dst++ = '/';
            memmove(dst, src, l);
            dst += l;
        }
        src = e;
    }
    if (dst == p)
        *dst++ = '/';
    *dst = 0;
}

static void atfork_prepare(void) { pthread_mutex_lock(&g_mu); }
static void atfork_release(void) { pthread_mutex_unlock(&g_mu); }

static void compute_root2(void)
{
    char *rp;
    if (g_root2 || !g_root)
        return;
    rp = realpath(g_root[0] ? g_root : "/", NULL);
    if (!rp)
        return;
    if (strcmp(rp, "/") == 0)
        rp[0] = 0;
    if (strcmp(rp, g_root) == 0) {
        free(rp);
        return;
    }
    g_root2len = strlen(rp);
    g_root2 = rp;
}

static void do_init(void)
{
    const char *s;
    char buf[PATH_MAX];

    s = getenv("FJSHIM_ROOT");
    if (!s || !*s)
        return; /* passive */

    if (s[0] == '/') {
        if (strlen(s) >= sizeof buf)
            return;
        strcpy(buf, s);
    } else {
        size_t l;
        if (!getcwd(buf, sizeof buf))
            return;
        l = strlen(buf);
        if (l + 1 + strlen(s) >= sizeof buf)
            return;
        buf[l] = '/';
        strcpy(buf + l + 1, s);
    }
    normalize(buf);
    if (strcmp(buf, "/") == 0)
        buf[0] = 0;

    REAL(open);
    REAL(write);
    REAL(close);
    REAL(fcntl);

    g_armfile = getenv("FJSHIM_ARM_FILE");
    if (g_armfile && !*g_armfile)
        g_armfile = NULL;
    g_armed = g_armfile ? 0 : 1;

    g_countfile = getenv("FJSHIM_COUNT_FILE");
    if (g_countfile && !*g_countfile)
        g_countfile = NULL;

    g_crash_at = env_long("FJSHIM_CRASH_AT", 0);
    g_torn = env_long("FJSHIM_TORN", -1);
    g_fault_at = env_long("FJSHIM_FAULT_AT", 0);
    g_fault_errno = (int)env_long("FJSHIM_FAULT_ERRNO", EIO);
    if (g_fault_errno <= 0)
        g_fault_errno = EIO;
    g_fault_short = env_long("FJSHIM_FAULT_SHORT", -1);
    g_fault_sticky = env_long("FJSHIM_FAULT_STICKY", 0) != 0;
    g_fault_delay_ms = env_long("FJSHIM_FAULT_DELAY_MS", 0);
    g_fault_short_transient = env_long("FJSHIM_FAULT_SHORT_TRANSIENT", 0) != 0;
    s = getenv("FJSHIM_FAULT_PATH");
    if (s)
        g_fault_path = s; /* empty string matches every path */
    s = getenv("FJSHIM_FAULT_CLASS");
    if (!s || !*s || !strcmp(s, "any"))
        g_fault_class = 0;
    else if (!strcmp(s, "write"))
        g_fault_class = C_WRITE;
    else if (!strcmp(s, "sync"))
        g_fault_class = C_SYNC;
    else if (!strcmp(s, "trunc"))
        g_fault_class = C_TRUNC;
    else if (!strcmp(s, "unlink"))
        g_fault_class = C_UNLINK;
    else {
        static const char m[] = "fjshim: unknown FJSHIM_FAULT_CLASS, using 'any'\n";
        if (real_write)
            real_write(2, m, sizeof m - 1);
        g_fault_class = 0;
    }

    s = getenv("FJSHIM_LOG");
    if (s && *s && real_open) {
        int fd = real_open(s, O_WRONLY | O_CREAT | O_APPEND | O_CLOEXEC, 0644);
        if (fd >= 0 && real_fcntl) {
            /* move out of the way of the program's own small fd numbers */
            int hi = real_fcntl(fd, F_DUPFD_CLOEXEC, 700);
            if (hi >= 0) {
                real_close(fd);
                fd = hi;
            }
        }
        g_logfd = fd;
    }

    pthread_atfork(atfork_prepare, atfork_release, atfork_release);

    g_rootlen = strlen(buf);
    g_root = strdup(buf);
    compute_root2();
}

static inline int active(void)
{
    if (!__atomic_load_n(&g_inited, __ATOMIC_ACQUIRE)) {
        pthread_mutex_lock(&g_initmu);
        if (!g_inited) {
            do_init();
            __atomic_store_n(&g_inited, 1, __ATOMIC_RELEASE);
        }
        pthread_mutex_unlock(&g_initmu);
    }
    return g_root != NULL;
}

__attribute__((constructor)) static void shim_ctor(void) { (void)active(); }

static void write_count(void)
{
    char b[32];
    int fd, n;
    if (!g_root || !g_countfile)
        return;
    REAL(open);
    REAL(write);
    REAL(close);
    if (!real_open || !real_write || !real_close)
        return;
    fd = real_open(g_countfile, O_WRONLY | O_CREAT | O_TRUNC | O_CLOEXEC, 0644);
    if (fd < 0)
        return;
    n = snprintf(b, sizeof b, "%ld\n", g_count);
    if (real_write(fd, b, (size_t)n) < 0) {
        /* nothing to do */
    }
    real_close(fd);
}

__attribute__((destructor)) static void shim_dtor(void)
{
    if (g_inited && g_root)
        write_count();
}

/* ------------------------------------------------------------------ */
/* paths                                                               */

/* offset of the root-relative part of abs, or -1 if abs is outside the root */
static int root_off(const char *abs)
{
    if (strncmp(abs, g_root, g_rootlen) == 0) {
        if (abs[g_rootlen] == '/')
            return (int)g_rootlen + 1;
        if (abs[g_rootlen] == 0)
            return (int)g_rootlen;
    }
    if (g_root2 && strncmp(abs, g_root2, g_root2len) == 0) {
        if (abs[g_root2len] == '/')
            return (int)g_root2len + 1;
        if (abs[g_root2len] == 0)
            return (int)g_root2len;
    }
    return -1;
}

/* absolute, normalised path of (dirfd, path) into out[PATH_MAX]; 0 on failure */
static int abs_path(int dirfd, const char *path, char *out)
{
    size_t l, pl;
    if (!path)
        return 0;
    pl = strlen(path);
    if (path[0] == '/') {
        if (pl >= PATH_MAX)
            return 0;
        memcpy(out, path, pl + 1);
    } else {
        if (dirfd == AT_FDCWD) {
            if (!getcwd(out, PATH_MAX))
                return 0;
        } else {
            char link[40];
            ssize_t r;
            snprintf(link, sizeof link, "/proc/self/fd/%d", dirfd);
            r = readlink(link, out, PATH_MAX - 1);
            if (r <= 0 || out[0] != '/') {
                /* fall back to our own table */
                int ok = 0;
                if (dirfd >= 0 && dirfd < FD_MAX) {
                    pthread_mutex_lock(&g_mu);
                    if (g_fd[dirfd].path && strlen(g_fd[dirfd].path) < PATH_MAX) {
                        strcpy(out, g_fd[dirfd].path);
                        ok = 1;
                    }
                    pthread_mutex_unlock(&g_mu);
                }
                if (!ok)
                    return 0;
            } else {
                out[r] = 0;
            }
        }
        l = strlen(out);
        if (l + 1 + pl >= PATH_MAX)
            return 0;
        out[l] = '/';
        memcpy(out + l + 1, path, pl + 1);
    }
    normalize(out);
    return 1;
}

static const char *rel_of(const char *abs, int off)
{
    return abs[off] ? abs + off : ".";
}

/* ------------------------------------------------------------------ */
/* fd table                                                            */

static void fd_set_entry(int fd, char *path, int reloff, dev_t dev, ino_t ino)
{
    char *old;
    if (fd < 0 || fd >= FD_MAX) {
        free(path);
        return;
    }
    pthread_mutex_lock(&g_mu);
    old = g_fd[fd].path;
    g_fd[fd].path = path;
    g_fd[fd].reloff = reloff;
    g_fd[fd].dev = dev;
    g_fd[fd].ino = ino;
    if (path && fd >= g_fd_hi)
        g_fd_hi = fd + 1;
    pthread_mutex_unlock(&g_mu);
    free(old);
}

static void fd_untrack(int fd)
{
    if (fd < 0 || fd >= FD_MAX)
        return;
    if (!__atomic_load_n(&g_fd[fd].path, __ATOMIC_RELAXED))
        return;
    fd_set_entry(fd, NULL, 0, 0, 0);
}

/* record a freshly opened fd; abs may be NULL (unknown) */
static void fd_track(int fd, const char *abs)
{
    int off;
    struct stat64 st;
    if (fd <= 2 || fd >= FD_MAX)
        return;
    if (!abs || (off = root_off(abs)) < 0 || fstat64(fd, &st) != 0) {
        fd_untrack(fd);
        return;
    }
    fd_set_entry(fd, strdup(abs), off, st.st_dev, st.st_ino);
}

static void fd_copy(int from, int to)
{
    char buf[PATH_MAX];
    int have = 0, off = 0;
    dev_t dev = 0;
    ino_t ino = 0;
    if (to <= 2 || to >= FD_MAX)
        return;
    if (from >= 0 && from < FD_MAX) {
        pthread_mutex_lock(&g_mu);
        if (g_fd[from].path && strlen(g_fd[from].path) < sizeof buf) {
            strcpy(buf, g_fd[from].path);
            off = g_fd[from].reloff;
            dev = g_fd[from].dev;
            ino = g_fd[from].ino;
            have = 1;
        }
        pthread_mutex_unlock(&g_mu);
    }
    if (have)
        fd_set_entry(to, strdup(buf), off, dev, ino);
    else
        fd_untrack(to);
}

/* root-relative path of a tracked fd into rel; 0 if the fd is out of scope */
static int fd_rel(int fd, char *rel, size_t relsz)
{
    struct stat64 st;
    char *stale = NULL;
    int ok = 0;
    if (fd <= 2 || fd >= FD_MAX)
        return 0;
    if (!__atomic_load_n(&g_fd[fd].path, __ATOMIC_RELAXED))
        return 0;
    pthread_mutex_lock(&g_mu);
    if (g_fd[fd].path) {
        /* guard against closes we did not see (fclose, closedir, close_range) */
        if (fstat64(fd, &st) != 0 || st.st_dev != g_fd[fd].dev ||
            st.st_ino != g_fd[fd].ino) {
            stale = g_fd[fd].path;
            g_fd[fd].path = NULL;
        } else {
            const char *r = rel_of(g_fd[fd].path, g_fd[fd].reloff);
            if (strlen(r) < relsz) {
                strcpy(rel, r);
                ok = 1;
            }
        }
    }
    pthread_mutex_unlock(&g_mu);
    free(stale);
    return ok;
}

/* after a successful rename: keep fd->path of open files up to date */
static void fd_renamed(const char *oabs, const char *nabs)
{
    size_t ol = strlen(oabs);
    int i, noff = root_off(nabs);
    if (root_off(oabs) < 0)
        return;
    pthread_mutex_lock(&g_mu);
    for (i = 3; i < g_fd_hi; i++) {
        char *p = g_fd[i].path, *np;
        if (!p || strncmp(p, oabs, ol) != 0 || (p[ol] != 0 && p[ol] != '/'))
            continue;
        if (noff < 0) {
            g_fd[i].path = NULL;
            free(p);
            continue;
        }
        np = malloc(strlen(nabs) + strlen(p + ol) + 1);
        if (!np)
            continue;
        strcpy(np, nabs);
        strcat(np, p + ol);
        g_fd[i].path = np;
        g_fd[i].reloff = noff;
        free(p);
    }
    pthread_mutex_unlock(&g_mu);
}

/* file offset the next write() would go to, -1 if unknown */
static long long cur_off(int fd)
{
    int fl;
    REAL(fcntl);
    fl = real_fcntl ? real_fcntl(fd, F_GETFL) : -1;
    if (fl >= 0 && (fl & O_APPEND)) {
        struct stat64 st;
        if (fstat64(fd, &st) == 0)
            return (long long)st.st_size;
        return -1;
    }
    return (long long)lseek64(fd, 0, SEEK_CUR);
}

/* ------------------------------------------------------------------ */
/* events                                                              */

#define REL_MAX (2 * PATH_MAX + 2)

typedef struct {
    long n; /* 0: not an event */
    int act;
    size_t k; /* bytes for A_SHORT / A_TORN */
    const char *call;
    long long off, len; /* -1: n/a */
    char rel[REL_MAX];
} ev_t;

static void ev_line(const ev_t *ev, const char *tail)
{
    char line[REL_MAX + 256];
    char offs[24], lens[24];
    size_t pos, cap;
    const unsigned char *s;
    int n;

    if (g_logfd < 0)
        return;
    n = snprintf(line, sizeof line, "%ld %s ", ev->n, ev->call);
    pos = (size_t)n;
    cap = sizeof line - 128;
    for (s = (const unsigned char *)ev->rel; *s && pos + 4 < cap; s++) {
        if (*s <= 0x20 || *s == 0x7f) {
            static const char hx[] = "0123456789abcdef";
            line[pos++] = '\\';
            line[pos++] = 'x';
            line[pos++] = hx[*s >> 4];
            line[pos++] = hx[*s & 15];
        } else {
            line[pos++] = (char)*s;
        }
    }
    if (ev->off >= 0)
        snprintf(offs, sizeof offs, "%lld", ev->off);
    else
        strcpy(offs, "-");
    if (ev->len >= 0)
        snprintf(lens, sizeof lens, "%lld", ev->len);
    else
        strcpy(lens, "-");
    n = snprintf(line + pos, sizeof line - pos, " %s %s %s\n", offs, lens, tail);
    pos += (size_t)n;
    REAL(write);
    if (real_write(g_logfd, line, pos) < 0) {
        /* log lost; nothing sensible to do */
    }
}

static void ev_die(const ev_t *ev, const char *tail) __attribute__((noreturn));
static void ev_die(const ev_t *ev, const char *tail)
{
    ev_line(ev, tail);
    write_count();
    syscall(SYS_exit_group, 137);
    for (;;)
        _exit(137);
}

/*
 * Number the event and decide what happens to it.  ev->rel must be filled.
 * Returns 0 if the shim is not armed (ev->n == 0).  On A_TORN the global
 * mutex is still held (the caller writes the prefix and dies).
 */
static int ev_begin(ev_t *ev, const char *call, int cls, long long off, long long len)
{
    long delay = 0;
    ev->n = 0;
    ev->act = A_PASS;
    ev->k = 0;
    ev->call = call;
    ev->off = off;
    ev->len = len;

    pthread_mutex_lock(&g_mu);
    if (!g_armed) {
        if (access(g_armfile, F_OK) != 0) {
            pthread_mutex_unlock(&g_mu);
            return 0;
        }
        g_armed = 1;
        compute_root2();
    }
    ev->n = ++g_count;

    if (g_crash_at > 0 && ev->n == g_crash_at) {
        if (cls == C_WRITE && g_torn >= 0) {
            long long k = g_torn;
            if (k > len - 1)
                k = len - 1;
            if (k < 0)
                k = 0;
            ev->act = A_TORN;
            ev->k = (size_t)k;
            return 1; /* mutex held */
        }
        ev_die(ev, "CRASH");
    }

    if (g_fault_at > 0 && (g_fault_class == 0 || g_fault_class == cls) &&
        strstr(ev->rel, g_fault_path) != NULL) {
        long m = ++g_match;
        if (m == g_fault_at && g_fault_delay_ms > 0)
            delay = g_fault_delay_ms;
        if (m == g_fault_at) {
            if (g_fault_short >= 0 && cls == C_WRITE && len > g_fault_short) {
                ev->act = A_SHORT;
                ev->k = (size_t)g_fault_short;
                g_short_pending = g_fault_short_transient ? 0 : 1;
            } else {
                ev->act = A_FAIL;
            }
        } else if (m > g_fault_at) {
            if (g_fault_sticky) {
                ev->act = A_FAIL;
            } else if (g_short_pending && cls == C_WRITE) {
                g_short_pending = 0;
                ev->act = A_FAIL;
            }
        }
    }
    pthread_mutex_unlock(&g_mu);
    if (delay > 0) {
        struct timespec ts = { delay / 1000, (delay % 1000) * 1000000L };
        nanosleep(&ts, NULL);
    }
    return 1;
}

/* log the outcome (r < 0: E<err>) and leave errno = err */
static void ev_end(const ev_t *ev, long long r, int err)
{
    char tail[32];
    if (r < 0)
        snprintf(tail, sizeof tail, "E%d", err);
    else
        snprintf(tail, sizeof tail, "%lld", r);
    ev_line(ev, tail);
    errno = err;
}

/* injected failure: returns -1 with errno set */
static int ev_fail(const ev_t *ev)
{
    ev_end(ev, -1, g_fault_errno);
    return -1;
}

/* event on an fd; 1 if numbered */
static int fd_ev(ev_t *ev, int fd, const char *call, int cls, long long off, long long len)
{
    if (!active() || !fd_rel(fd, ev->rel, sizeof ev->rel))
        return 0;
    return ev_begin(ev, call, cls, off, len);
}

/* event on a path; 1 if numbered.  absout (PATH_MAX) receives the absolute path or "" */
static int path_ev(ev_t *ev, int dirfd, const char *path, const char *call, int cls,
                   long long len, char *absout)
{
    int off;
    absout[0] = 0;
    if (!active())
        return 0;
    if (!abs_path(dirfd, path, absout)) {
        absout[0] = 0;
        return 0;
    }
    off = root_off(absout);
    if (off < 0)
        return 0;
    strcpy(ev->rel, rel_of(absout, off));
    return ev_begin(ev, call, cls, -1, len);
}

/* ------------------------------------------------------------------ */
/* write class                                                         */

enum { W_WRITE, W_PWRITE, W_PWRITE64, W_WRITEV, W_PWRITEV, W_PWRITEV64 };

static ssize_t real_w(int kind, int fd, const void *buf, size_t len,
                      const struct iovec *iov, int cnt, off64_t off)
{
    switch (kind) {
    case W_WRITE:
        return real_write(fd, buf, len);
    case W_PWRITE:
        return real_pwrite(fd, buf, len, (off_t)off);
    case W_PWRITE64:
        return real_pwrite64(fd, buf, len, off);
    case W_WRITEV:
        return real_writev(fd, iov, cnt);
    case W_PWRITEV:
        return real_pwritev(fd, iov, cnt, (off_t)off);
    default:
        return real_pwritev64(fd, iov, cnt, off);
    }
}

/* really write the first k bytes of the request; returns bytes written or -1 */
static ssize_t partial_w(int kind, int fd, const void *buf, const struct iovec *iov,
                         int cnt, off64_t off, size_t k)
{
    char *tmp = NULL;
    const char *p = buf;
    size_t done = 0;
    int positional = !(kind == W_WRITE || kind == W_WRITEV);

    if (k == 0)
        return 0;
    if (kind == W_WRITEV || kind == W_PWRITEV || kind == W_PWRITEV64) {
        size_t fill = 0;
        int i;
        tmp = malloc(k);
        if (!tmp) {
            errno = ENOMEM;
            return -1;
        }
        for (i = 0; i < cnt && fill < k; i++) {
            size_t l = iov[i].iov_len;
            if (l > k - fill)
                l = k - fill;
            memcpy(tmp + fill, iov[i].iov_base, l);
            fill += l;
        }
        k = fill;
        p = tmp;
    }
    REAL(write);
    REAL(pwrite64);
    while (done < k) {
        ssize_t r = positional ? real_pwrite64(fd, p + done, k - done, off + (off64_t)done)
                               : real_write(fd, p + done, k - done);
        if (r < 0) {
            if (errno == EINTR)
                continue;
            break;
        }
        if (r == 0)
            break;
        done += (size_t)r;
    }
    if (tmp) {
        int e = errno;
        free(tmp);
        errno = e;
    }
    if (done == 0 && k > 0)
        return -1;
    return (ssize_t)done;
}

static ssize_t write_common(const char *call, int kind, int fd, const void *buf, size_t len,
                            const struct iovec *iov, int cnt, off64_t off)
{
    int se = errno, e;
    int positional = !(kind == W_WRITE || kind == W_WRITEV);
    ssize_t r;
    ev_t ev;

    if (fd <= 2 || !active() || !fd_rel(fd, ev.rel, sizeof ev.rel)) {
        errno = se;
        return real_w(kind, fd, buf, len, iov, cnt, off);
    }
    if (iov) {
        int i;
        len = 0;
        if (cnt < 0 || cnt > IOV_MAX) { /* let the kernel report it */
            errno = se;
            return real_w(kind, fd, buf, len, iov, cnt, off);
        }
        for (i = 0; i < cnt; i++)
            len += iov[i].iov_len;
    }
    if (!ev_begin(&ev, call, C_WRITE, positional ? (long long)off : cur_off(fd),
                  (long long)len)) {
        errno = se;
        return real_w(kind, fd, buf, len, iov, cnt, off);
    }
    switch (ev.act) {
    case A_TORN: {
        char tail[40];
        r = partial_w(kind, fd, buf, iov, cnt, off, ev.k);
        snprintf(tail, sizeof tail, "TORN %ld", r < 0 ? 0L : (long)r);
        ev_die(&ev, tail);
    }
    case A_FAIL:
        return ev_fail(&ev);
    case A_SHORT:
        errno = se;
        r = partial_w(kind, fd, buf, iov, cnt, off, ev.k);
        e = errno;
        ev_end(&ev, r, e);
        return r;
    default:
        break;
    }
    errno = se;
    r = real_w(kind, fd, buf, len, iov, cnt, off);
    e = errno;
    ev_end(&ev, r, e);
    return r;
}

ssize_t write(int fd, const void *buf, size_t len)
{
    REAL(write);
    return write_common("write", W_WRITE, fd, buf, len, NULL, 0, -1);
}

ssize_t pwrite(int fd, const void *buf, size_t len, off_t off)
{
    REAL(pwrite);
    return write_common("pwrite", W_PWRITE, fd, buf, len, NULL, 0, off);
}

ssize_t pwrite64(int fd, const void *buf, size_t len, off64_t off)
{
    REAL(pwrite64);
    return write_common("pwrite", W_PWRITE64, fd, buf, len, NULL, 0, off);
}

ssize_t writev(int fd, const struct iovec *iov, int cnt)
{
    REAL(writev);
    return write_common("writev", W_WRITEV, fd, NULL, 0, iov, cnt, -1);
}

ssize_t pwritev(int fd, const struct iovec *iov, int cnt, off_t off)
{
    REAL(pwritev);
    return write_common("pwritev", W_PWRITEV, fd, NULL, 0, iov, cnt, off);
}

ssize_t pwritev64(int fd, const struct iovec *iov, int cnt, off64_t off)
{
    REAL(pwritev64);
    return write_common("pwritev", W_PWRITEV64, fd, NULL, 0, iov, cnt, off);
}

/* ------------------------------------------------------------------ */
/* simple fd events                                                    */

#define FD_EVENT(CALLNAME, CLS, OFF, LEN, REALCALL)                           \
    do {                                                                      \
        int se_ = errno, r_, e_;                                              \
        ev_t ev_;                                                             \
        if (fd <= 2 || !fd_ev(&ev_, fd, CALLNAME, CLS, OFF, LEN)) {           \
            errno = se_;                                                      \
            return REALCALL;                                                  \
        }                                                                     \
        if (ev_.act == A_FAIL)                                                \
            return ev_fail(&ev_);                                             \
        errno = se_;                                                          \
        r_ = REALCALL;                                                        \
        e_ = errno;                                                           \
        ev_end(&ev_, r_, e_);                                                 \
        return r_;                                                            \
    } while (0)

int ftruncate(int fd, off_t length)
{
    REAL(ftruncate);
    FD_EVENT("ftruncate", C_TRUNC, -1, (long long)length, real_ftruncate(fd, length));
}

int ftruncate64(int fd, off64_t length)
{
    REAL(ftruncate64);
    FD_EVENT("ftruncate", C_TRUNC, -1, (long long)length, real_ftruncate64(fd, length));
}

int fsync(int fd)
{
    REAL(fsync);
    FD_EVENT("fsync", C_SYNC, -1, -1, real_fsync(fd));
}

int fdatasync(int fd)
{
    REAL(fdatasync);
    FD_EVENT("fdatasync", C_SYNC, -1, -1, real_fdatasync(fd));
}

int sync_file_range(int fd, off64_t offset, off64_t nbytes, unsigned int flags)
{
    REAL(sync_file_range);
    FD_EVENT("sync_file_range", C_SYNC, (long long)offset, (long long)nbytes,
             real_sync_file_range(fd, offset, nbytes, flags));
}

int fallocate(int fd, int mode, off_t offset, off_t len)
{
    REAL(fallocate);
    FD_EVENT("fallocate", C_OTHER, (long long)offset, (long long)len,
             real_fallocate(fd, mode, offset, len));
}

int fallocate64(int fd, int mode, off64_t offset, off64_t len)
{
    REAL(fallocate64);
    FD_EVENT("fallocate", C_OTHER, (long long)offset, (long long)len,
             real_fallocate64(fd, mode, offset, len));
}

/* posix_fallocate returns the error number instead of -1/errno */
static int posix_fallocate_common(int is64, int fd, off64_t offset, off64_t len)
{
    int se = errno, r;
    ev_t ev;
    if (fd <= 2 ||
        !fd_ev(&ev, fd, "posix_fallocate", C_OTHER, (long long)offset, (long long)len)) {
        errno = se;
        return is64 ? real_posix_fallocate64(fd, offset, len)
                    : real_posix_fallocate(fd, (off_t)offset, (off_t)len);
    }
    if (ev.act == A_FAIL) {
        ev_end(&ev, -1, g_fault_errno);
        errno = se;
        return g_fault_errno;
    }
    errno = se;
    r = is64 ? real_posix_fallocate64(fd, offset, len)
             : real_posix_fallocate(fd, (off_t)offset, (off_t)len);
    se = errno;
    if (r != 0)
        ev_end(&ev, -1, r);
    else
        ev_end(&ev, 0, 0);
    errno = se;
    return r;
}

int posix_fallocate(int fd, off_t offset, off_t len)
{
    REAL(posix_fallocate);
    return posix_fallocate_common(0, fd, offset, len);
}

int posix_fallocate64(int fd, off64_t offset, off64_t len)
{
    REAL(posix_fallocate64);
    return posix_fallocate_common(1, fd, offset, len);
}

/* ------------------------------------------------------------------ */
/* path events                                                         */

#define PATH_EVENT(CALLNAME, CLS, DIRFD, PATH, REALCALL)                      \
    do {                                                                      \
        int se_ = errno, r_, e_;                                              \
        ev_t ev_;                                                             \
        char abs_[PATH_MAX];                                                  \
        if (!path_ev(&ev_, DIRFD, PATH, CALLNAME, CLS, -1, abs_)) {           \
            errno = se_;                                                      \
            return REALCALL;                                                  \
        }                                                                     \
        if (ev_.act == A_FAIL)                                                \
            return ev_fail(&ev_);                                             \
        errno = se_;                                                          \
        r_ = REALCALL;                                                        \
        e_ = errno;                                                           \
        ev_end(&ev_, r_, e_);                                                 \
        return r_;                                                            \
    } while (0)

int unlink(const char *path)
{
    REAL(unlink);
    PATH_EVENT("unlink", C_UNLINK, AT_FDCWD, path, real_unlink(path));
}

int unlinkat(int dirfd, const char *path, int flags)
{
    REAL(unlinkat);
    PATH_EVENT("unlinkat", C_UNLINK, dirfd, path, real_unlinkat(dirfd, path, flags));
}

int mkdir(const char *path, mode_t mode)
{
    REAL(mkdir);
    PATH_EVENT("mkdir", C_OTHER, AT_FDCWD, path, real_mkdir(path, mode));
}

int mkdirat(int dirfd, const char *path, mode_t mode)
{
    REAL(mkdirat);
    PATH_EVENT("mkdirat", C_OTHER, dirfd, path, real_mkdirat(dirfd, path, mode));
}

int rmdir(const char *path)
{
    REAL(rmdir);
    PATH_EVENT("rmdir", C_OTHER, AT_FDCWD, path, real_rmdir(path));
}

enum { R_RENAME, R_RENAMEAT, R_RENAMEAT2 };

static int real_ren(int kind, int od, const char *op, int nd, const char *np, unsigned int fl)
{
    switch (kind) {
    case R_RENAME:
        return real_rename(op, np);
    case R_RENAMEAT:
        return real_renameat(od, op, nd, np);
    default:
        if (!real_renameat2) {
            errno = ENOSYS;
            return -1;
        }
        return real_renameat2(od, op, nd, np, fl);
    }
}

static int rename_common(const char *call, int kind, int od, const char *op, int nd,
                         const char *np, unsigned int fl)
{
    int se = errno, r, e, ooff, noff;
    char oabs[PATH_MAX], nabs[PATH_MAX];
    ev_t ev;

    if (!active() || !abs_path(od, op, oabs) || !abs_path(nd, np, nabs))
        goto pass;
    ooff = root_off(oabs);
    noff = root_off(nabs);
    if (ooff < 0 && noff < 0)
        goto pass;
    snprintf(ev.rel, sizeof ev.rel, "%s>%s", ooff >= 0 ? rel_of(oabs, ooff) : oabs,
             noff >= 0 ? rel_of(nabs, noff) : nabs);
    if (!ev_begin(&ev, call, C_OTHER, -1, -1))
        goto pass;
    if (ev.act == A_FAIL)
        return ev_fail(&ev);
    errno = se;
    r = real_ren(kind, od, op, nd, np, fl);
    e = errno;
    if (r == 0)
        fd_renamed(oabs, nabs);
    ev_end(&ev, r, e);
    return r;
pass:
    errno = se;
    return real_ren(kind, od, op, nd, np, fl);
}

int rename(const char *oldpath, const char *newpath)
{
    REAL(rename);
    return rename_common("rename", R_RENAME, AT_FDCWD, oldpath, AT_FDCWD, newpath, 0);
}

int renameat(int od, const char *oldpath, int nd, const char *newpath)
{
    REAL(renameat);
    return rename_common("renameat", R_RENAMEAT, od, oldpath, nd, newpath, 0);
}

int renameat2(int od, const char *oldpath, int nd, const char *newpath, unsigned int flags)
{
    REAL(renameat2);
    return rename_common("renameat2", R_RENAMEAT2, od, oldpath, nd, newpath, flags);
}

/* ------------------------------------------------------------------ */
/* open family                                                         */

enum { O_OPEN, O_OPEN64, O_OPENAT, O_OPENAT64, O_CREAT_, O_CREAT64_ };

static int real_o(int kind, int dirfd, const char *path, int flags, mode_t mode)
{
    switch (kind) {
    case O_OPEN:
        return real_open(path, flags, mode);
    case O_OPEN64:
        return real_open64(path, flags, mode);
    case O_OPENAT:
        return real_openat(dirfd, path, flags, mode);
    case O_OPENAT64:
        return real_openat64(dirfd, path, flags, mode);
    case O_CREAT_:
        return real_creat(path, mode);
    default:
        return real_creat64(path, mode);
    }
}

static int open_common(const char *call, int kind, int dirfd, const char *path, int flags,
                       mode_t mode)
{
    int se = errno, fd, e, off, have_abs;
    char abs[PATH_MAX];
    ev_t ev;

    if (!active())
        return real_o(kind, dirfd, path, flags, mode);

    have_abs = abs_path(dirfd, path, abs);
    off = have_abs ? root_off(abs) : -1;
    ev.n = 0;
    if (off >= 0 && (flags & (O_CREAT | O_TRUNC))) {
        strcpy(ev.rel, rel_of(abs, off));
        if (ev_begin(&ev, call, C_OTHER, -1, (flags & O_TRUNC) ? 0 : -1) &&
            ev.act == A_FAIL)
            return ev_fail(&ev);
    }
    errno = se;
    fd = real_o(kind, dirfd, path, flags, mode);
    e = errno;
    if (fd > 2) {
        if (off >= 0 && (flags & O_TMPFILE) == O_TMPFILE && strlen(abs) + 10 < sizeof abs)
            strcat(abs, "/#tmpfile");
        fd_track(fd, off >= 0 ? abs : NULL);
    }
    if (ev.n)
        ev_end(&ev, fd, e);
    errno = e;
    return fd;
}

#define OPEN_MODE(flags, last)                                                \
    mode_t mode = 0;                                                          \
    if (((flags) & O_CREAT) || ((flags) & O_TMPFILE) == O_TMPFILE) {          \
        va_list ap;                                                           \
        va_start(ap, last);                                                   \
        mode = (mode_t)va_arg(ap, int);                                       \
        va_end(ap);                                                           \
    }

int open(const char *path, int flags, ...)
{
    OPEN_MODE(flags, flags)
    REAL(open);
    return open_common("open", O_OPEN, AT_FDCWD, path, flags, mode);
}

int open64(const char *path, int flags, ...)
{
    OPEN_MODE(flags, flags)
    REAL(open64);
    return open_common("open", O_OPEN64, AT_FDCWD, path, flags, mode);
}

int openat(int dirfd, const char *path, int flags, ...)
{
    OPEN_MODE(flags, flags)
    REAL(openat);
    return open_common("openat", O_OPENAT, dirfd, path, flags, mode);
}

int openat64(int dirfd, const char *path, int flags, ...)
{
    OPEN_MODE(flags, flags)
    REAL(openat64);
    return open_common("openat", O_OPENAT64, dirfd, path, flags, mode);
}

int creat(const char *path, mode_t mode)
{
    REAL(creat);
    return open_common("creat", O_CREAT_, AT_FDCWD, path, O_CREAT | O_WRONLY | O_TRUNC, mode);
}

int creat64(const char *path, mode_t mode)
{
    REAL(creat64);
    return open_common("creat", O_CREAT64_, AT_FDCWD, path, O_CREAT | O_WRONLY | O_TRUNC,
                       mode);
}

/* _FORTIFY_SOURCE entry points (never O_CREAT, but may be O_TRUNC) */
int __open_2(const char *path, int flags);
int __open64_2(const char *path, int flags);
int __openat_2(int dirfd, const char *path, int flags);
int __openat64_2(int dirfd, const char *path, int flags);

int __open_2(const char *path, int flags)
{
    REAL(open);
    return open_common("open", O_OPEN, AT_FDCWD, path, flags, 0);
}

int __open64_2(const char *path, int flags)
{
    REAL(open64);
    return open_common("open", O_OPEN64, AT_FDCWD, path, flags, 0);
}

int __openat_2(int dirfd, const char *path, int flags)
{
    REAL(openat);
    return open_common("openat", O_OPENAT, dirfd, path, flags, 0);
}

int __openat64_2(int dirfd, const char *path, int flags)
{
    REAL(openat64);
    return open_common("openat", O_OPENAT64, dirfd, path, flags, 0);
}

/* ------------------------------------------------------------------ */
/* fd bookkeeping (never events)                                       */

int close(int fd)
{
    REAL(close);
    if (active()) {
        if (fd >= 0 && fd == g_logfd)
            return 0; /* keep the private log fd alive across close-all loops */
        if (fd > 2) {
            int se = errno;
            fd_untrack(fd); /* before the real close: the number may be reused at once */
            errno = se;
        }
    }
    return real_close(fd);
}

int closedir(DIR *d)
{
    DIR *volatile dv = d; /* the prototype says nonnull; do not let gcc drop the check */
    REAL(closedir);
    if (dv && active()) {
        int se = errno;
        fd_untrack(dirfd(d));
        errno = se;
    }
    return real_closedir(d);
}

int fclose(FILE *f)
{
    FILE *volatile fv = f;
    REAL(fclose);
    if (fv && active()) {
        int se = errno;
        fd_untrack(fileno(f));
        errno = se;
    }
    return real_fclose(f);
}

int dup(int fd)
{
    int r, e;
    REAL(dup);
    r = real_dup(fd);
    if (r >= 0 && active()) {
        e = errno;
        fd_copy(fd, r);
        errno = e;
    }
    return r;
}

int dup2(int oldfd, int newfd)
{
    int r, e;
    REAL(dup2);
    r = real_dup2(oldfd, newfd);
    if (r >= 0 && oldfd != newfd && active()) {
        e = errno;
        fd_copy(oldfd, r);
        errno = e;
    }
    return r;
}

int dup3(int oldfd, int newfd, int flags)
{
    int r, e;
    REAL(dup3);
    if (!real_dup3) {
        errno = ENOSYS;
        return -1;
    }
    r = real_dup3(oldfd, newfd, flags);
    if (r >= 0 && active()) {
        e = errno;
        fd_copy(oldfd, r);
        errno = e;
    }
    return r;
}

static int fcntl_common(int is64, int fd, int cmd, void *arg)
{
    int r, e;
    r = is64 ? real_fcntl64(fd, cmd, arg) : real_fcntl(fd, cmd, arg);
    if (r >= 0 && (cmd == F_DUPFD || cmd == F_DUPFD_CLOEXEC) && active()) {
        e = errno;
        fd_copy(fd, r);
        errno = e;
    }
    return r;
}

int fcntl(int fd, int cmd, ...)
{
    va_list ap;
    void *arg;
    va_start(ap, cmd);
    arg = va_arg(ap, void *);
    va_end(ap);
    REAL(fcntl);
    return fcntl_common(0, fd, cmd, arg);
}

int fcntl64(int fd, int cmd, ...)
{
    va_list ap;
    void *arg;
    va_start(ap, cmd);
    arg = va_arg(ap, void *);
    va_end(ap);
    REAL(fcntl64);
    if (!real_fcntl64) {
        REAL(fcntl);
        return fcntl_common(0, fd, cmd, arg);
    }
    return fcntl_common(1, fd, cmd, arg);
}
