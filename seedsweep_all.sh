#!/bin/bash
# usage: seedsweep_all.sh [name-prefix]  — for every stored seeded change: apply to /repo, run the checks recorded as catching it
# (quick tier), undo; prints one line per (seed, check) and writes seeded/SWEEP.txt.  Needs /repo clean and no other check running.
cd /verif
out=seeded/SWEEP.txt; : > $out.tmp
[ -n "$(git -C /repo status --short)" ] && { echo "/repo is not clean"; exit 2; }
for d in seeded/${1:-}*/; do
  name=$(basename $d)
  [ -f $d/patch.diff ] || continue
  checks=$(python3 -c "import json;print(' '.join(json.load(open('$d/meta.json'))['caught_by_checks']))")
  if ! git -C /repo apply --check /verif/$d/patch.diff 2>/dev/null; then
     if git -C /repo apply --3way --check /verif/$d/patch.diff 2>/dev/null; then how="--3way"; else echo "$name: patch no longer applies to /repo HEAD" | tee -a $out.tmp; continue; fi
  else how=""; fi
  git -C /repo apply $how /verif/$d/patch.diff 2>/dev/null
  for c in $checks; do
    r=$(./check $c --tier quick 2>/dev/null | grep -E "^VIOLATION" | head -1)
    echo "$name $c: ${r:+caught} ${r:-MISSED}" | sed 's/ VIOLATION.*//' | tee -a $out.tmp
  done
  git -C /repo checkout -q -- . ; git -C /repo reset -q
done
git -C /repo status --short | head -3
mv $out.tmp $out
